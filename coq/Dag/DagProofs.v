(** C18 — proofs about the DAG Recorder model (Dag/DagTreeModel.v, Dag/DagRecordModel.v). *)
From Coq Require Import ZArith List Bool Lia.
From MT Require Import Dag.DagTreeModel Dag.DagRecordModel.
Import ListNotations.
Local Open Scope Z_scope.

(** * 0. Basics *)

Lemma zsum_app : forall a b, zsum (a ++ b) = zsum a + zsum b.
Proof.
  induction a as [|x a IH]; intros b; [reflexivity|].
  change (zsum ((x :: a) ++ b)) with (x + zsum (a ++ b)). change (zsum (x :: a)) with (x + zsum a).
  rewrite IH. lia.
Qed.

Lemma zsum_cons : forall x l, zsum (x :: l) = x + zsum l.
Proof. reflexivity. Qed.

Lemma max0_cons : forall x l, max0 (x :: l) = Z.max x (max0 l).
Proof. reflexivity. Qed.

Lemma max0_nonneg : forall l, 0 <= max0 l.
Proof. induction l as [|x l IH]; [cbn; lia|]. rewrite max0_cons. lia. Qed.

Lemma max0_app : forall a b, max0 (a ++ b) = Z.max (max0 a) (max0 b).
Proof.
  induction a as [|x a IH]; intros b.
  - cbn [app]. change (max0 []) with 0. pose proof (max0_nonneg b). lia.
  - cbn [app]. rewrite !max0_cons, IH. lia.
Qed.

Lemma max0_ge : forall l x, In x l -> x <= max0 l.
Proof.
  induction l as [|y l IH]; intros x Hin; [contradiction|].
  rewrite max0_cons. destruct Hin as [->|Hin]; [lia|]. specialize (IH _ Hin). lia.
Qed.

Lemma max0_le : forall l b, 0 <= b -> (forall x, In x l -> x <= b) -> max0 l <= b.
Proof.
  induction l as [|y l IH]; intros b Hb H; [cbn; lia|].
  rewrite max0_cons. assert (y <= b) by (apply H; left; reflexivity).
  assert (max0 l <= b) by (apply IH; [lia|]; intros x Hx; apply H; right; exact Hx). lia.
Qed.

Lemma max0_attained : forall l, max0 l = 0 \/ In (max0 l) l.
Proof.
  induction l as [|y l IH]; [left; reflexivity|].
  rewrite max0_cons. destruct (Z.max_spec y (max0 l)) as [[_ ->]|[_ ->]].
  - destruct IH as [IH|IH]; [left; exact IH|right; right; exact IH].
  - right; left; reflexivity.
Qed.

(** ** counts are commutative monoids *)
Lemma nc_add_zero_l : forall a, nc_add nc_zero a = a.
Proof. destruct a; reflexivity. Qed.
Lemma nc_add_zero_r : forall a, nc_add a nc_zero = a.
Proof. destruct a; unfold nc_add; cbn; f_equal; lia. Qed.
Lemma nc_add_assoc : forall a b c, nc_add (nc_add a b) c = nc_add a (nc_add b c).
Proof. destruct a, b, c; unfold nc_add; cbn; f_equal; lia. Qed.
Lemma nc_add_comm : forall a b, nc_add a b = nc_add b a.
Proof. destruct a, b; unfold nc_add; cbn; f_equal; lia. Qed.
Lemma ec_add_zero_l : forall a, ec_add ec_zero a = a.
Proof. destruct a; reflexivity. Qed.
Lemma ec_add_zero_r : forall a, ec_add a ec_zero = a.
Proof. destruct a; unfold ec_add; cbn; f_equal; lia. Qed.
Lemma ec_add_assoc : forall a b c, ec_add (ec_add a b) c = ec_add a (ec_add b c).
Proof. destruct a, b, c; unfold ec_add; cbn; f_equal; lia. Qed.
Lemma ec_add_comm : forall a b, ec_add a b = ec_add b a.
Proof. destruct a, b; unfold ec_add; cbn; f_equal; lia. Qed.

Definition nc_sum (l : list ncounts) : ncounts := fold_right nc_add nc_zero l.
Definition ec_sum (l : list ecounts) : ecounts := fold_right ec_add ec_zero l.

Lemma nc_sum_app : forall a b, nc_sum (a ++ b) = nc_add (nc_sum a) (nc_sum b).
Proof.
  induction a as [|x a IH]; intros b; cbn [app nc_sum fold_right].
  - symmetry; apply nc_add_zero_l.
  - fold (nc_sum (a ++ b)); fold (nc_sum a). rewrite IH, nc_add_assoc. reflexivity.
Qed.
Lemma ec_sum_app : forall a b, ec_sum (a ++ b) = ec_add (ec_sum a) (ec_sum b).
Proof.
  induction a as [|x a IH]; intros b; cbn [app ec_sum fold_right].
  - symmetry; apply ec_add_zero_l.
  - fold (ec_sum (a ++ b)); fold (ec_sum a). rewrite IH, ec_add_assoc. reflexivity.
Qed.

(** ** induction principles for the nested types *)
Section TreeInd.
  Variable P : tree -> Prop.
  Hypothesis HO : forall l, P (Other l).
  Hypothesis HC : forall l c, P c -> P (Create l c).
  Hypothesis HS : forall items w, Forall P items -> P (Sect items w).
  Hypothesis HT : forall items e, Forall P items -> P (Task items e).
  Fixpoint tree_ind' (t : tree) : P t :=
    match t with
    | Other l => HO l
    | Create l c => HC l c (tree_ind' c)
    | Sect items w =>
        HS items w ((fix go (l : list tree) : Forall P l :=
                       match l with [] => Forall_nil P | x :: r => Forall_cons x (tree_ind' x) (go r) end) items)
    | Task items e =>
        HT items e ((fix go (l : list tree) : Forall P l :=
                       match l with [] => Forall_nil P | x :: r => Forall_cons x (tree_ind' x) (go r) end) items)
    end.
End TreeInd.

Section NodeInd.
  Variable P : node -> Prop.
  Hypothesis HL : forall i, P (NLeaf i).
  Hypothesis HC : forall i c, P c -> P (NCreate i c).
  Hypothesis HS : forall i ch, Forall P ch -> P (NSub i ch).
  Fixpoint node_ind' (n : node) : P n :=
    match n with
    | NLeaf i => HL i
    | NCreate i c => HC i c (node_ind' c)
    | NSub i ch =>
        HS i ch ((fix go (l : list node) : Forall P l :=
                    match l with [] => Forall_nil P | x :: r => Forall_cons x (node_ind' x) (go r) end) ch)
    end.
End NodeInd.

(** * 1. Contraction does not change any summary *)

(** [contracts n n']: [n'] is [n] with an arbitrary set of closed subgraphs replaced by their
    summaries (and cur_node_count adjusted in any way) *)
Inductive contracts : node -> node -> Prop :=
| ct_leaf : forall i, contracts (NLeaf i) (NLeaf i)
| ct_create : forall i c c', contracts c c' -> contracts (NCreate i c) (NCreate i c')
| ct_collapse : forall i ch cur', contracts (NSub i ch) (NSub (set_cur i cur') [])
| ct_sub : forall i ch ch' cur', Forall2 contracts ch ch' -> contracts (NSub i ch) (NSub (set_cur i cur') ch').

Definition contracting (summ : list nat -> node -> node) : Prop :=
  forall p n, contracts n (summ p n).

(** equality of summaries up to cur_node_count *)
Definition info_eqc (a b : info) : Prop := set_cur a 0 = set_cur b 0.

Lemma info_eqc_refl : forall a, info_eqc a a.
Proof. reflexivity. Qed.
Lemma info_eqc_sym : forall a b, info_eqc a b -> info_eqc b a.
Proof. unfold info_eqc; intros; symmetry; assumption. Qed.
Lemma info_eqc_trans : forall a b c, info_eqc a b -> info_eqc b c -> info_eqc a c.
Proof. unfold info_eqc; intros; congruence. Qed.
Lemma info_eqc_set_cur : forall a c, info_eqc (set_cur a c) a.
Proof. destruct a; reflexivity. Qed.
Lemma set_cur_same : forall a, set_cur a (i_cur a) = a.
Proof. destruct a; reflexivity. Qed.

Lemma info_eqc_fields : forall a b, info_eqc a b ->
  i_kind a = i_kind b /\ i_start a = i_start b /\ i_end a = i_end b /\ i_worker a = i_worker b /\
  i_t1 a = i_t1 b /\ i_tinf a = i_tinf b /\ i_nodes a = i_nodes b /\ i_edges a = i_edges b /\
  i_min a = i_min b /\ i_nchild a = i_nchild b.
Proof.
  intros [] [] H. unfold info_eqc, set_cur in H. cbn in H. inversion H; subst. cbn. repeat split.
Qed.

(** what the parent's accumulation reads of a child: its summary, and for a create_task
    interval the summary of the created task *)
Definition node_eqc (n n' : node) : Prop :=
  match n, n' with
  | NLeaf i, NLeaf i' => info_eqc i i'
  | NSub i _, NSub i' _ => info_eqc i i'
  | NLeaf i, NSub i' _ => info_eqc i i'
  | NSub i _, NLeaf i' => info_eqc i i'
  | NCreate i c, NCreate i' c' => info_eqc i i' /\ info_eqc (ninfo c) (ninfo c')
  | _, _ => False
  end.

Lemma node_eqc_info : forall n n', node_eqc n n' -> info_eqc (ninfo n) (ninfo n').
Proof. intros [] [] H; cbn in *; try contradiction; try exact H. exact (proj1 H). Qed.

Lemma contracts_info : forall n n', contracts n n' -> info_eqc (ninfo n) (ninfo n').
Proof.
  intros n n' H; destruct H; cbn; try apply info_eqc_refl; apply info_eqc_sym, info_eqc_set_cur.
Qed.

Lemma contracts_node_eqc : forall n n', contracts n n' -> node_eqc n n'.
Proof.
  intros n n' H; destruct H; cbn.
  - apply info_eqc_refl.
  - split; [apply info_eqc_refl|apply contracts_info; assumption].
  - apply info_eqc_sym, info_eqc_set_cur.
  - apply info_eqc_sym, info_eqc_set_cur.
Qed.

Lemma contracts_refl : forall n, contracts n n.
Proof.
  induction n as [i|i c IH|i ch IH] using node_ind'.
  - constructor.
  - constructor; exact IH.
  - rewrite <- (set_cur_same i) at 2. apply ct_sub.
    induction IH as [|x r Hx _ IHr]; constructor; assumption.
Qed.

Definition accst_eqc (a b : accst) : Prop := info_eqc (a_info a) (a_info b) /\ a_alt a = a_alt b.

Lemma acc_step_eqc : forall oc h st st' x x',
  accst_eqc st st' -> node_eqc x x' -> accst_eqc (acc_step oc h st x) (acc_step oc h st' x').
Proof.
  intros oc h [s alt] [s' alt'] x x' [Hs Ha] Hx. cbn in Hs, Ha. subst alt'.
  apply info_eqc_fields in Hs.
  destruct Hs as (Hk & Hst & He & Hw & Ht1 & Hti & Hn & Hed & Hm & Hnc).
  destruct x as [xi|xi c|xi ch]; destruct x' as [xi'|xi' c'|xi' ch']; cbn in Hx; try contradiction.
  - apply info_eqc_fields in Hx.
    destruct Hx as (Hxk & Hxst & Hxe & Hxw & Hxt1 & Hxti & Hxn & Hxed & Hxm & Hxnc).
    unfold acc_step; cbn [ninfo a_info a_alt].
    rewrite Hk, Hst, He, Hw, Ht1, Hti, Hn, Hed, Hm, Hnc, Hxk, Hxw, Hxt1, Hxti, Hxn, Hxed, Hxm, Hxnc.
    split; [|reflexivity]. destruct (i_kind xi'); try destruct h; try destruct (oc && _); reflexivity.
  - apply info_eqc_fields in Hx.
    destruct Hx as (Hxk & Hxst & Hxe & Hxw & Hxt1 & Hxti & Hxn & Hxed & Hxm & Hxnc).
    unfold acc_step; cbn [ninfo a_info a_alt].
    rewrite Hk, Hst, He, Hw, Ht1, Hti, Hn, Hed, Hm, Hnc, Hxk, Hxw, Hxt1, Hxti, Hxn, Hxed, Hxm, Hxnc.
    split; [|reflexivity]. destruct (i_kind xi'); try destruct h; try destruct (oc && _); reflexivity.
  - destruct Hx as [Hx Hc]. apply info_eqc_fields in Hc.
    destruct Hc as (Hck & Hcst & Hce & Hcw & Hct1 & Hcti & Hcn & Hced & Hcm & Hcnc).
    apply info_eqc_fields in Hx.
    destruct Hx as (Hxk & Hxst & Hxe & Hxw & Hxt1 & Hxti & Hxn & Hxed & Hxm & Hxnc).
    unfold acc_step; cbn [ninfo a_info a_alt].
    rewrite Hk, Hst, He, Hw, Ht1, Hti, Hn, Hed, Hm, Hnc, Hxw, Hxt1, Hxti, Hxn, Hxed, Hxm,
      Hce, Hcw, Hct1, Hcti, Hcn, Hced, Hcm.
    split; reflexivity.
  - apply info_eqc_fields in Hx.
    destruct Hx as (Hxk & Hxst & Hxe & Hxw & Hxt1 & Hxti & Hxn & Hxed & Hxm & Hxnc).
    unfold acc_step; cbn [ninfo a_info a_alt].
    rewrite Hk, Hst, He, Hw, Ht1, Hti, Hn, Hed, Hm, Hnc, Hxk, Hxw, Hxt1, Hxti, Hxn, Hxed, Hxm, Hxnc.
    split; [|reflexivity]. destruct (i_kind xi'); try destruct h; try destruct (oc && _); reflexivity.
  - apply info_eqc_fields in Hx.
    destruct Hx as (Hxk & Hxst & Hxe & Hxw & Hxt1 & Hxti & Hxn & Hxed & Hxm & Hxnc).
    unfold acc_step; cbn [ninfo a_info a_alt].
    rewrite Hk, Hst, He, Hw, Ht1, Hti, Hn, Hed, Hm, Hnc, Hxk, Hxw, Hxt1, Hxti, Hxn, Hxed, Hxm, Hxnc.
    split; [|reflexivity]. destruct (i_kind xi'); try destruct h; try destruct (oc && _); reflexivity.
Qed.

Lemma acc_loop_eqc : forall oc l l' st st',
  Forall2 node_eqc l l' -> accst_eqc st st' -> accst_eqc (acc_loop oc st l) (acc_loop oc st' l').
Proof.
  intros oc l l' st st' H; revert st st'.
  induction H as [|x x' r r' Hx Hr IH]; intros st st' Hst; cbn [acc_loop]; [exact Hst|].
  apply IH.
  assert (Hnil : (match r with [] => false | _ => true end) = (match r' with [] => false | _ => true end))
    by (destruct Hr; reflexivity).
  rewrite Hnil. apply acc_step_eqc; assumption.
Qed.

Lemma last_eqc : forall l l' d d', Forall2 node_eqc l l' -> node_eqc d d' -> node_eqc (last l d) (last l' d').
Proof.
  intros l l' d d' H; revert d d'. induction H as [|x x' r r' Hx Hr IH]; intros d d' Hd; [exact Hd|].
  cbn [last]. destruct Hr as [|y y' r2 r2' Hy Hr2]; [exact Hx|]. apply IH; exact Hd.
Qed.

Lemma acc_finish_eqc : forall st st', accst_eqc st st' -> info_eqc (acc_finish st) (acc_finish st').
Proof.
  intros [s alt] [s' alt'] [Hs Ha]. cbn in Hs, Ha. subst alt'.
  apply info_eqc_fields in Hs. destruct Hs as (Hk & Hst & He & Hw & Ht1 & Hti & Hn & Hed & Hm & Hnc).
  unfold acc_finish, info_eqc, set_cur. cbn [a_info a_alt i_kind i_start i_end i_worker i_t1 i_tinf i_nodes i_edges i_cur i_min i_nchild].
  rewrite Hk, Hst, He, Hw, Ht1, Hti, Hn, Hed, Hm, Hnc. reflexivity.
Qed.

Lemma accumulate_eqc : forall oc k l l', Forall2 node_eqc l l' -> info_eqc (accumulate oc k l) (accumulate oc k l').
Proof.
  intros oc k l l' H. destruct H as [|x x' r r' Hx Hr]; [apply info_eqc_refl|].
  unfold accumulate. apply acc_finish_eqc. apply acc_loop_eqc; [constructor; assumption|].
  assert (Hl : node_eqc (last (x :: r) x) (last (x' :: r') x')) by (apply last_eqc; [constructor; assumption|exact Hx]).
  apply node_eqc_info in Hl. apply node_eqc_info in Hx.
  apply info_eqc_fields in Hl. apply info_eqc_fields in Hx.
  destruct Hl as (_ & _ & Hle & _). destruct Hx as (_ & Hxs & _ & Hxw & _).
  unfold acc_init, accst_eqc, info_eqc, set_cur. cbn [a_info a_alt i_kind i_start i_end i_worker i_t1 i_tinf i_nodes i_edges i_cur i_min i_nchild].
  rewrite Hle, Hxs, Hxw. split; reflexivity.
Qed.

(** the recorder without contraction, without the positions *)
Section Rec0.
  Variable oc : bool.
  Fixpoint rec0 (t : tree) : node :=
    match t with
    | Other l => NLeaf (leaf_info KOther l)
    | Create l c => NCreate (leaf_info KCreate l) (rec0 c)
    | Sect items w => let ch := map rec0 items ++ [NLeaf (leaf_info KWait w)] in NSub (accumulate oc KSection ch) ch
    | Task items e => let ch := map rec0 items ++ [NLeaf (leaf_info KEnd e)] in NSub (accumulate oc KTask ch) ch
    end.
End Rec0.

Lemma record_items_Forall2 : forall (R : node -> node -> Prop) f g p items k,
  Forall (fun x => forall q, R (f q x) (g x)) items ->
  Forall2 R (record_items f p k items) (map g items).
Proof.
  intros R f g p items; induction items as [|x r IH]; intros k H; cbn [record_items map]; [constructor|].
  inversion H as [|? ? Hx Hr]; subst. constructor; [apply Hx|apply IH; exact Hr].
Qed.

Lemma Forall2_app_one : forall (R : node -> node -> Prop) l l' x x',
  Forall2 R l l' -> R x x' -> Forall2 R (l ++ [x]) (l' ++ [x']).
Proof. intros R l l' x x' H Hx. apply Forall2_app; [exact H|constructor; [exact Hx|constructor]]. Qed.

Lemma contracts_sub_eqc : forall i i' ch ch0 n',
  info_eqc i i' -> contracts (NSub i ch) n' -> node_eqc n' (NSub i' ch0).
Proof.
  intros i i' ch ch0 n' Hi H. inversion H; subst; cbn.
  - eapply info_eqc_trans; [apply info_eqc_set_cur|exact Hi].
  - eapply info_eqc_trans; [apply info_eqc_set_cur|exact Hi].
Qed.

Theorem record_eqc : forall oc summ, contracting summ ->
  forall t p, node_eqc (record oc summ p t) (rec0 oc t).
Proof.
  intros oc summ Hs t. induction t as [l|l c IH|items w IH|items e IH] using tree_ind'; intros p.
  - cbn. apply info_eqc_refl.
  - cbn [record rec0 node_eqc]. split; [apply info_eqc_refl|]. apply node_eqc_info, IH.
  - cbn [record rec0].
    eapply contracts_sub_eqc; [|apply Hs].
    apply accumulate_eqc. apply Forall2_app_one; [|apply info_eqc_refl].
    apply record_items_Forall2. exact IH.
  - cbn [record rec0].
    eapply contracts_sub_eqc; [|apply Hs].
    apply accumulate_eqc. apply Forall2_app_one; [|apply info_eqc_refl].
    apply record_items_Forall2. exact IH.
Qed.

Lemma contracting_none : contracting summ_none.
Proof. intros p n; apply contracts_refl. Qed.

(** the headline: every summary field except cur_node_count *)
Theorem contraction_invariant : forall oc summ, contracting summ ->
  forall t, info_eqc (root_info oc summ t) (root_info oc summ_none t).
Proof.
  intros oc summ Hs t. unfold root_info.
  eapply info_eqc_trans; [apply node_eqc_info, record_eqc; exact Hs|].
  apply info_eqc_sym, node_eqc_info, record_eqc, contracting_none.
Qed.

Lemma root_info_rec0 : forall oc summ, contracting summ ->
  forall t, info_eqc (root_info oc summ t) (ninfo (rec0 oc t)).
Proof. intros oc summ Hs t. apply node_eqc_info, record_eqc; exact Hs. Qed.

(** * 2. Every policy of the recorder, and every choice function, only contracts *)

Lemma contracts_collapse : forall n, contracts n (collapse n).
Proof. intros [i|i c|i ch]; cbn; [apply contracts_refl|apply contracts_refl|apply ct_collapse]. Qed.

Lemma prune_contracts : forall n b, contracts n (prune b n).
Proof.
  induction n as [i|i c IH|i ch IH] using node_ind'; intros b.
  - cbn. constructor.
  - cbn [prune]. constructor. apply IH.
  - cbn [prune].
    destruct (i_cur i <=? b); [apply contracts_refl|].
    destruct (i_min i >=? i_cur i); [apply contracts_refl|].
    destruct ((b <? zsum (map min_below ch) + 1) && (i_min i =? 1)); [apply ct_collapse|].
    apply ct_sub.
    generalize (b - 1) (i_cur i - 1).
    induction IH as [|x r Hx _ IHr]; intros bl nl; cbn [prune_list fst]; constructor; [apply Hx|apply IHr].
Qed.

Lemma summarize_contracts : forall st n, contracts n (summarize st n).
Proof.
  intros st n. unfold summarize.
  destruct (negb (s_nct st =? 0)).
  - destruct (i_cur (ninfo n) >? s_prune st); [apply prune_contracts|apply contracts_refl].
  - destruct (negb (s_cmc st =? 0)).
    + destruct (nc_total (i_nodes (ninfo n)) <? s_cmc st); [apply contracts_collapse|apply contracts_refl].
    + match goal with |- contracts _ (if ?c then _ else _) => destruct c end;
        [apply contracts_collapse|apply contracts_refl].
Qed.

Lemma contract_contracts : forall sel n rel, contracts n (contract sel rel n).
Proof.
  intros sel. induction n as [i|i c IH|i ch IH] using node_ind'; intros rel.
  - cbn. constructor.
  - cbn [contract]. constructor. apply IH.
  - cbn [contract]. destruct (sel rel); [apply ct_collapse|].
    apply ct_sub. generalize 0%nat.
    induction IH as [|x r Hx _ IHr]; intros k; cbn [contract_list]; constructor; [apply Hx|apply IHr].
Qed.

Lemma contracting_setting : forall st, contracting (summ_setting st).
Proof. intros st p n. apply summarize_contracts. Qed.

Lemma contracting_choice : forall ch, contracting (summ_choice ch).
Proof. intros ch p n. apply contract_contracts. Qed.

(** * 3. Work and node counts of the uncontracted recording *)

Lemma last_app_one : forall (l : list node) x d, last (l ++ [x]) d = x.
Proof.
  induction l as [|y l IH]; intros x d; [reflexivity|].
  cbn [app]. destruct l as [|z l]; [reflexivity|]. apply (IH x d).
Qed.

Lemma accumulate_app_one : forall oc k l x,
  accumulate oc k (l ++ [x]) =
  acc_finish (acc_loop oc (acc_init k (ninfo (hd x l)) (ninfo x)) (l ++ [x])).
Proof.
  intros oc k l x. destruct l as [|y l]; [reflexivity|].
  unfold accumulate. cbn [app hd].
  change (y :: l ++ [x]) with ((y :: l) ++ [x]). rewrite last_app_one. reflexivity.
Qed.

(** what the parent reads of child x *)
Definition child_part (f : info -> Z) (x : node) : Z :=
  match x with NCreate _ c => f (ninfo c) | _ => 0 end.
Definition full_t1 (x : node) : Z := i_t1 (ninfo x) + child_part i_t1 x.
Definition full_nodes (x : node) : ncounts :=
  nc_add (i_nodes (ninfo x)) (match x with NCreate _ c => i_nodes (ninfo c) | _ => nc_zero end).

Lemma acc_step_t1 : forall oc h st x,
  i_t1 (a_info (acc_step oc h st x)) = i_t1 (a_info st) + full_t1 x.
Proof. intros oc h st [xi|xi c|xi ch]; unfold acc_step, full_t1, child_part; cbn; lia. Qed.

Lemma acc_step_nodes : forall oc h st x,
  i_nodes (a_info (acc_step oc h st x)) = nc_add (i_nodes (a_info st)) (full_nodes x).
Proof.
  intros oc h st [xi|xi c|xi ch]; unfold acc_step, full_nodes; cbn;
    rewrite ?nc_add_zero_r, ?nc_add_assoc; reflexivity.
Qed.

Lemma acc_loop_t1 : forall oc l st,
  i_t1 (a_info (acc_loop oc st l)) = i_t1 (a_info st) + zsum (map full_t1 l).
Proof.
  intros oc; induction l as [|x r IH]; intros st; cbn [acc_loop map]; [cbn; lia|].
  rewrite IH, acc_step_t1, zsum_cons. lia.
Qed.

Lemma acc_loop_nodes : forall oc l st,
  i_nodes (a_info (acc_loop oc st l)) = nc_add (i_nodes (a_info st)) (nc_sum (map full_nodes l)).
Proof.
  intros oc; induction l as [|x r IH]; intros st; cbn [acc_loop map].
  - cbn. symmetry; apply nc_add_zero_r.
  - rewrite IH, acc_step_nodes, nc_add_assoc. reflexivity.
Qed.

Lemma accumulate_t1 : forall oc k l x, i_t1 (accumulate oc k (l ++ [x])) = zsum (map full_t1 (l ++ [x])).
Proof. intros. rewrite accumulate_app_one. unfold acc_finish; cbn [i_t1]. rewrite acc_loop_t1. cbn. lia. Qed.

Lemma accumulate_nodes : forall oc k l x, i_nodes (accumulate oc k (l ++ [x])) = nc_sum (map full_nodes (l ++ [x])).
Proof. intros. rewrite accumulate_app_one. unfold acc_finish; cbn [i_nodes]. rewrite acc_loop_nodes. cbn. apply nc_add_zero_l. Qed.

(** well-formedness, unfolded *)
Lemma wf_forall : forall c items, forallb (wf c) items = true -> Forall (fun x => wf c x = true) items.
Proof. intros c items H. apply Forall_forall. intros x Hx. rewrite forallb_forall in H. apply H, Hx. Qed.

Lemma wf_child_task : forall t, wf CChild t = true -> exists items e, t = Task items e.
Proof. intros [l|l c|items w|items e] H; cbn in H; try discriminate. eauto. Qed.

Lemma wf_sect_item : forall t, wf CSect t = true ->
  (exists l, t = Other l) \/ (exists l c, t = Create l c /\ wf CChild c = true) \/
  (exists items w, t = Sect items w /\ forallb (wf CSect) items = true).
Proof. intros [l|l c|items w|items e] H; cbn in H; try discriminate; eauto 7. Qed.

Lemma wf_task_item : forall t, wf CTask t = true ->
  (exists l, t = Other l) \/ (exists items w, t = Sect items w /\ forallb (wf CSect) items = true).
Proof. intros [l|l c|items w|items e] H; cbn in H; try discriminate; eauto 7. Qed.

Lemma Forall_impl2 : forall (A : Type) (P Q R : A -> Prop) l,
  (forall x, P x -> Q x -> R x) -> Forall P l -> Forall Q l -> Forall R l.
Proof.
  intros A P Q R l H HP. induction HP as [|x r Hx _ IH]; intros HQ; [constructor|].
  inversion HQ; subst. constructor; [apply H; assumption|apply IH; assumption].
Qed.

Lemma map_ext_Forall : forall (A B : Type) (f g : A -> B) l, Forall (fun x => f x = g x) l -> map f l = map g l.
Proof. intros A B f g l H; induction H as [|x r Hx _ IH]; cbn; [reflexivity|]. rewrite Hx, IH; reflexivity. Qed.

(** specification side: sums over the intervals *)
Definition lsum (l : list (nkind * leaf)) : Z := zsum (map (fun kl => llen (snd kl)) l).
Definition lcount (k : nkind) (l : list (nkind * leaf)) : Z :=
  Z.of_nat (length (filter (fun kl => nkind_eqb (fst kl) k) l)).
Definition lcounts (l : list (nkind * leaf)) : ncounts :=
  mkNC (lcount KCreate l) (lcount KWait l) (lcount KOther l) (lcount KEnd l).

Lemma lsum_app : forall a b, lsum (a ++ b) = lsum a + lsum b.
Proof. intros; unfold lsum; rewrite map_app, zsum_app; reflexivity. Qed.
Lemma lcount_app : forall k a b, lcount k (a ++ b) = lcount k a + lcount k b.
Proof. intros; unfold lcount; rewrite filter_app, app_length, Nat2Z.inj_add; reflexivity. Qed.
Lemma lcounts_app : forall a b, lcounts (a ++ b) = nc_add (lcounts a) (lcounts b).
Proof. intros; unfold lcounts, nc_add; cbn; rewrite !lcount_app; reflexivity. Qed.
Lemma lsum_flat : forall items, lsum (flat_map leaves items) = zsum (map (fun x => lsum (leaves x)) items).
Proof.
  induction items as [|x r IH]; [reflexivity|]. cbn [flat_map map]. rewrite lsum_app, IH, zsum_cons. reflexivity.
Qed.
Lemma lcounts_flat : forall items, lcounts (flat_map leaves items) = nc_sum (map (fun x => lcounts (leaves x)) items).
Proof.
  induction items as [|x r IH]; [reflexivity|]. cbn [flat_map map]. rewrite lcounts_app, IH. reflexivity.
Qed.

Lemma work_lsum : forall t, work t = lsum (leaves t).
Proof. reflexivity. Qed.
Lemma count_kind_lcount : forall k t, count_kind k t = lcount k (leaves t).
Proof. reflexivity. Qed.

(** a created child / the root is a task, whose node carries everything in its own summary *)
Lemma rec0_task_full_t1 : forall oc items e, full_t1 (rec0 oc (Task items e)) = i_t1 (ninfo (rec0 oc (Task items e))).
Proof. intros; unfold full_t1, child_part; cbn [rec0]; lia. Qed.

Theorem rec0_t1 : forall oc t c, wf c t = true -> full_t1 (rec0 oc t) = lsum (leaves t).
Proof.
  intros oc t. induction t as [l|l ch IH|items w IH|items e IH] using tree_ind'; intros c Hwf.
  - unfold full_t1, child_part, lsum; cbn. lia.
  - destruct c; cbn in Hwf; try discriminate.
    destruct (wf_child_task _ Hwf) as (items & e & ->).
    specialize (IH CChild Hwf). rewrite rec0_task_full_t1 in IH.
    change (rec0 oc (Create l (Task items e))) with (NCreate (leaf_info KCreate l) (rec0 oc (Task items e))).
    unfold full_t1 at 1, child_part. cbn [ninfo]. rewrite IH.
    change (leaves (Create l (Task items e))) with ([(KCreate, l)] ++ leaves (Task items e)).
    rewrite lsum_app. unfold lsum at 1; cbn. lia.
  - assert (Hit : Forall (fun x => wf CSect x = true) items)
      by (destruct c; cbn in Hwf; try discriminate; apply wf_forall; exact Hwf).
    unfold full_t1, child_part. cbn [rec0 ninfo leaves]. rewrite accumulate_t1.
    rewrite map_app, zsum_app, lsum_app, lsum_flat, map_map.
    rewrite (map_ext_Forall _ _ (fun x => full_t1 (rec0 oc x)) (fun x => lsum (leaves x))).
    + unfold full_t1, child_part, lsum; cbn. lia.
    + eapply Forall_impl2; [|exact IH|exact Hit]. cbn. intros x H1 H2. exact (H1 _ H2).
  - assert (Hit : Forall (fun x => wf CTask x = true) items)
      by (destruct c; cbn in Hwf; try discriminate; apply wf_forall; exact Hwf).
    unfold full_t1, child_part. cbn [rec0 ninfo leaves]. rewrite accumulate_t1.
    rewrite map_app, zsum_app, lsum_app, lsum_flat, map_map.
    rewrite (map_ext_Forall _ _ (fun x => full_t1 (rec0 oc x)) (fun x => lsum (leaves x))).
    + unfold full_t1, child_part, lsum; cbn. lia.
    + eapply Forall_impl2; [|exact IH|exact Hit]. cbn. intros x H1 H2. exact (H1 _ H2).
Qed.

Lemma nc_unit_lcounts : forall k l, (k = KCreate \/ k = KWait \/ k = KOther \/ k = KEnd) -> nc_unit k = lcounts [(k, l)].
Proof. intros k l [->|[->|[->| ->]]]; reflexivity. Qed.

Theorem rec0_nodes : forall oc t c, wf c t = true -> full_nodes (rec0 oc t) = lcounts (leaves t).
Proof.
  intros oc t. induction t as [l|l ch IH|items w IH|items e IH] using tree_ind'; intros c Hwf.
  - reflexivity.
  - destruct c; cbn in Hwf; try discriminate.
    destruct (wf_child_task _ Hwf) as (items & e & ->).
    specialize (IH CChild Hwf).
    assert (IH' : i_nodes (ninfo (rec0 oc (Task items e))) = lcounts (leaves (Task items e))).
    { rewrite <- IH. unfold full_nodes. cbn [rec0]. rewrite nc_add_zero_r. reflexivity. }
    change (rec0 oc (Create l (Task items e))) with (NCreate (leaf_info KCreate l) (rec0 oc (Task items e))).
    unfold full_nodes. cbn [ninfo]. rewrite IH'.
    change (leaves (Create l (Task items e))) with ([(KCreate, l)] ++ leaves (Task items e)).
    rewrite lcounts_app. reflexivity.
  - assert (Hit : Forall (fun x => wf CSect x = true) items)
      by (destruct c; cbn in Hwf; try discriminate; apply wf_forall; exact Hwf).
    unfold full_nodes. cbn [rec0 ninfo leaves]. rewrite accumulate_nodes, nc_add_zero_r.
    rewrite map_app, nc_sum_app, lcounts_app, lcounts_flat, map_map.
    rewrite (map_ext_Forall _ _ (fun x => full_nodes (rec0 oc x)) (fun x => lcounts (leaves x))).
    + reflexivity.
    + eapply Forall_impl2; [|exact IH|exact Hit]. cbn. intros x H1 H2. exact (H1 _ H2).
  - assert (Hit : Forall (fun x => wf CTask x = true) items)
      by (destruct c; cbn in Hwf; try discriminate; apply wf_forall; exact Hwf).
    unfold full_nodes. cbn [rec0 ninfo leaves]. rewrite accumulate_nodes, nc_add_zero_r.
    rewrite map_app, nc_sum_app, lcounts_app, lcounts_flat, map_map.
    rewrite (map_ext_Forall _ _ (fun x => full_nodes (rec0 oc x)) (fun x => lcounts (leaves x))).
    + reflexivity.
    + eapply Forall_impl2; [|exact IH|exact Hit]. cbn. intros x H1 H2. exact (H1 _ H2).
Qed.

Theorem root_work : forall oc summ, contracting summ -> forall t, well_nested t ->
  i_t1 (root_info oc summ t) = work t.
Proof.
  intros oc summ Hs t Hwf.
  destruct (info_eqc_fields _ _ (root_info_rec0 oc summ Hs t)) as (_ & _ & _ & _ & -> & _).
  destruct (wf_child_task _ Hwf) as (items & e & ->).
  rewrite <- rec0_task_full_t1. rewrite work_lsum. eapply rec0_t1. exact Hwf.
Qed.

Theorem root_counts : forall oc summ, contracting summ -> forall t, well_nested t ->
  i_nodes (root_info oc summ t) =
  mkNC (count_kind KCreate t) (count_kind KWait t) (count_kind KOther t) (count_kind KEnd t).
Proof.
  intros oc summ Hs t Hwf.
  destruct (info_eqc_fields _ _ (root_info_rec0 oc summ Hs t)) as (_ & _ & _ & _ & _ & _ & -> & _).
  destruct (wf_child_task _ Hwf) as (items & e & ->).
  pose proof (rec0_nodes oc _ _ Hwf) as H. unfold full_nodes in H. cbn [rec0 ninfo] in H.
  rewrite nc_add_zero_r in H. cbn [rec0 ninfo]. rewrite H. reflexivity.
Qed.

(** * 4. Logical edge counts and the edges of the explicit DAG *)

Lemma ec_ext : forall a b, ec_end a = ec_end b -> ec_create a = ec_create b -> ec_ccont a = ec_ccont b ->
  ec_wcont a = ec_wcont b -> ec_ocont a = ec_ocont b -> a = b.
Proof. intros [] []; cbn; intros; subst; reflexivity. Qed.

Ltac ec_crush :=
  apply ec_ext; unfold ec_add, ec_zero;
  cbn [ec_end ec_create ec_ccont ec_wcont ec_ocont]; lia.

(** ** 4a. what dr_accumulate_stats adds to logical_edge_counts for child x (x has a successor) *)
Definition edge_extra (oc : bool) (x : node) : ecounts :=
  match x with
  | NCreate _ c => ec_add (mkEC 0 1 1 0 0) (i_edges (ninfo c))
  | _ => match i_kind (ninfo x) with
         | KSection => mkEC (i_nchild (ninfo x)) 0 0 1 0
         | KOther => if oc then mkEC 0 0 0 0 1 else ec_zero
         | _ => ec_zero
         end
  end.
Definition contrib (oc : bool) (x : node) : ecounts := ec_add (i_edges (ninfo x)) (edge_extra oc x).

(** the last child of a closed section / task is its wait / end interval *)
Definition last_ok (x : node) : Prop :=
  match x with
  | NCreate _ _ => True
  | _ => i_kind (ninfo x) <> KSection /\ i_kind (ninfo x) <> KOther
  end.
Fixpoint ends_ok (l : list node) : Prop :=
  match l with
  | [] => True
  | [x] => last_ok x
  | _ :: r => ends_ok r
  end.

Lemma acc_step_edges : forall oc h st x, (h = true \/ last_ok x) ->
  i_edges (a_info (acc_step oc h st x)) = ec_add (i_edges (a_info st)) (contrib oc x).
Proof.
  intros oc h st [xi|xi c|xi ch] Hh; unfold acc_step, contrib, edge_extra; cbn [ninfo a_info i_edges];
    cbn [last_ok ninfo] in Hh.
  - destruct (i_kind xi) eqn:Ek; destruct Hh as [->|[H1 H2]]; try congruence;
      try (destruct oc); cbn [andb]; ec_crush.
  - ec_crush.
  - destruct (i_kind xi) eqn:Ek; destruct Hh as [->|[H1 H2]]; try congruence;
      try (destruct oc); cbn [andb]; ec_crush.
Qed.

Lemma acc_loop_edges : forall oc l st, ends_ok l ->
  i_edges (a_info (acc_loop oc st l)) = ec_add (i_edges (a_info st)) (ec_sum (map (contrib oc) l)).
Proof.
  intros oc; induction l as [|x r IH]; intros st Hok; cbn [acc_loop map].
  - cbn. symmetry; apply ec_add_zero_r.
  - rewrite IH.
    + rewrite acc_step_edges.
      * cbn [ec_sum fold_right]. fold (ec_sum (map (contrib oc) r)). apply ec_add_assoc.
      * destruct r; [right; exact Hok|left; reflexivity].
    + destruct r; [exact I|exact Hok].
Qed.

Lemma acc_step_nchild : forall oc h st x,
  i_nchild (a_info (acc_step oc h st x)) = i_nchild (a_info st) + (if is_create x then 1 else 0).
Proof. intros oc h st [xi|xi c|xi ch]; unfold acc_step; cbn; lia. Qed.

Lemma n_creates_cons : forall x l, n_creates (x :: l) = (if is_create x then 1 else 0) + n_creates l.
Proof.
  intros x l; unfold n_creates; cbn [filter]. destruct (is_create x); [|lia].
  cbn [length]. rewrite Nat2Z.inj_succ. lia.
Qed.

Lemma n_creates_app : forall a b, n_creates (a ++ b) = n_creates a + n_creates b.
Proof. intros; unfold n_creates; rewrite filter_app, app_length, Nat2Z.inj_add; reflexivity. Qed.

Lemma acc_loop_nchild : forall oc l st,
  i_nchild (a_info (acc_loop oc st l)) = i_nchild (a_info st) + n_creates l.
Proof.
  intros oc; induction l as [|x r IH]; intros st; cbn [acc_loop]; [cbn; lia|].
  rewrite IH, acc_step_nchild, n_creates_cons. lia.
Qed.

Lemma ends_ok_app_leaf : forall l i, i_kind i <> KSection -> i_kind i <> KOther -> ends_ok (l ++ [NLeaf i]).
Proof.
  induction l as [|x r IH]; intros i H1 H2; [cbn; split; assumption|].
  cbn [app ends_ok]. destruct (r ++ [NLeaf i]) eqn:E; [destruct r; discriminate|].
  rewrite <- E. apply IH; assumption.
Qed.

Lemma accumulate_edges : forall oc k l i, i_kind i <> KSection -> i_kind i <> KOther ->
  i_edges (accumulate oc k (l ++ [NLeaf i])) = ec_sum (map (contrib oc) (l ++ [NLeaf i])).
Proof.
  intros. rewrite accumulate_app_one. unfold acc_finish; cbn [i_edges].
  rewrite acc_loop_edges by (apply ends_ok_app_leaf; assumption). cbn. apply ec_add_zero_l.
Qed.

Lemma accumulate_nchild : forall oc k l x, i_nchild (accumulate oc k (l ++ [x])) = n_creates (l ++ [x]).
Proof. intros. rewrite accumulate_app_one. unfold acc_finish; cbn [i_nchild]. rewrite acc_loop_nchild. cbn. lia. Qed.

Lemma acc_step_kind : forall oc h st x, i_kind (a_info (acc_step oc h st x)) = i_kind (a_info st).
Proof. intros oc h st [xi|xi c|xi ch]; unfold acc_step; reflexivity. Qed.

Lemma acc_loop_kind : forall oc l st, i_kind (a_info (acc_loop oc st l)) = i_kind (a_info st).
Proof.
  intros oc; induction l as [|x r IH]; intros st; cbn [acc_loop]; [reflexivity|].
  rewrite IH. apply acc_step_kind.
Qed.

Lemma accumulate_kind : forall oc k l x, i_kind (accumulate oc k (l ++ [x])) = k.
Proof.
  intros. rewrite accumulate_app_one. unfold acc_finish; cbn [i_kind].
  rewrite acc_loop_kind. reflexivity.
Qed.

(** ** 4b. the same attribution read off the tree *)
Definition is_create_t (t : tree) : bool := match t with Create _ _ => true | _ => false end.
Definition ndc (items : list tree) : Z := Z.of_nat (length (filter is_create_t items)).

Fixpoint attr (oc : bool) (t : tree) : ecounts :=
  match t with
  | Other _ => if oc then mkEC 0 0 0 0 1 else ec_zero
  | Create _ c => ec_add (mkEC 0 1 1 0 0) (attr oc c)
  | Sect items _ => ec_add (ec_sum (map (attr oc) items)) (mkEC (ndc items) 0 0 1 0)
  | Task items _ => ec_sum (map (attr oc) items)
  end.

Lemma n_creates_rec0 : forall oc items, n_creates (map (rec0 oc) items) = ndc items.
Proof.
  intros oc; induction items as [|x r IH]; [reflexivity|].
  cbn [map]. rewrite n_creates_cons, IH. unfold ndc; cbn [filter].
  destruct x; cbn [rec0 is_create is_create_t]; try lia.
  cbn [length]. rewrite Nat2Z.inj_succ. lia.
Qed.

Theorem rec0_contrib : forall oc t c, wf c t = true -> contrib oc (rec0 oc t) = attr oc t.
Proof.
  intros oc t. induction t as [l|l ch IH|items w IH|items e IH] using tree_ind'; intros c Hwf.
  - unfold contrib, edge_extra; cbn. destruct oc; reflexivity.
  - destruct c; cbn in Hwf; try discriminate.
    destruct (wf_child_task _ Hwf) as (items & e & ->).
    specialize (IH CChild Hwf).
    assert (IH' : i_edges (ninfo (rec0 oc (Task items e))) = attr oc (Task items e)).
    { rewrite <- IH. unfold contrib, edge_extra. cbn [rec0 ninfo]. rewrite accumulate_kind. symmetry; apply ec_add_zero_r. }
    change (rec0 oc (Create l (Task items e))) with (NCreate (leaf_info KCreate l) (rec0 oc (Task items e))).
    unfold contrib, edge_extra. cbn [ninfo]. rewrite IH'. cbn [attr leaf_info i_edges]. apply ec_add_zero_l.
  - assert (Hit : Forall (fun x => wf CSect x = true) items)
      by (destruct c; cbn in Hwf; try discriminate; apply wf_forall; exact Hwf).
    unfold contrib, edge_extra. cbn [rec0 ninfo attr].
    rewrite accumulate_kind, accumulate_nchild, (accumulate_edges oc KSection) by (cbn; discriminate).
    rewrite map_app, ec_sum_app, map_map, n_creates_app, n_creates_rec0.
    rewrite (map_ext_Forall _ _ (fun x => contrib oc (rec0 oc x)) (attr oc)).
    + unfold contrib at 1, edge_extra. cbn. rewrite !ec_add_zero_r.
      f_equal. f_equal. unfold n_creates; cbn. lia.
    + eapply Forall_impl2; [|exact IH|exact Hit]. cbn. intros x H1 H2. exact (H1 _ H2).
  - assert (Hit : Forall (fun x => wf CTask x = true) items)
      by (destruct c; cbn in Hwf; try discriminate; apply wf_forall; exact Hwf).
    unfold contrib, edge_extra. cbn [rec0 ninfo attr].
    rewrite accumulate_kind, (accumulate_edges oc KTask) by (cbn; discriminate).
    rewrite map_app, ec_sum_app, map_map.
    rewrite (map_ext_Forall _ _ (fun x => contrib oc (rec0 oc x)) (attr oc)).
    + unfold contrib at 1, edge_extra. cbn. rewrite !ec_add_zero_r. reflexivity.
    + eapply Forall_impl2; [|exact IH|exact Hit]. cbn. intros x H1 H2. exact (H1 _ H2).
Qed.

(** ** 4c. the attribution in terms of the numbers of intervals *)
Lemma ec_sum_proj : forall l,
  ec_end (ec_sum l) = zsum (map ec_end l) /\ ec_create (ec_sum l) = zsum (map ec_create l) /\
  ec_ccont (ec_sum l) = zsum (map ec_ccont l) /\ ec_wcont (ec_sum l) = zsum (map ec_wcont l) /\
  ec_ocont (ec_sum l) = zsum (map ec_ocont l).
Proof.
  induction l as [|x r IH]; [cbn; repeat split|].
  destruct IH as (I1 & I2 & I3 & I4 & I5).
  cbn [ec_sum fold_right map]. fold (ec_sum r). rewrite !zsum_cons.
  unfold ec_add; cbn [ec_end ec_create ec_ccont ec_wcont ec_ocont].
  rewrite I1, I2, I3, I4, I5. repeat split.
Qed.

Definition pend_end (t : tree) : Z := if is_create_t t then 1 else 0.

Lemma ndc_pend : forall items, ndc items = zsum (map pend_end items).
Proof.
  induction items as [|x r IH]; [reflexivity|].
  cbn [map]. rewrite zsum_cons, <- IH. unfold ndc, pend_end; cbn [filter].
  destruct (is_create_t x); cbn [length]; [rewrite Nat2Z.inj_succ|]; lia.
Qed.

Lemma lcount_flat : forall k items, lcount k (flat_map leaves items) = zsum (map (fun x => lcount k (leaves x)) items).
Proof.
  intros k; induction items as [|x r IH]; [reflexivity|]. cbn [flat_map map]. rewrite lcount_app, IH, zsum_cons. reflexivity.
Qed.

Lemma zsum_map_add : forall (A : Type) (f g : A -> Z) l, zsum (map (fun x => f x + g x) l) = zsum (map f l) + zsum (map g l).
Proof. intros A f g; induction l as [|x r IH]; [reflexivity|]. cbn [map]. rewrite !zsum_cons, IH. lia. Qed.

Definition attr_spec (oc : bool) (t : tree) : Prop :=
  ec_end (attr oc t) + pend_end t = lcount KCreate (leaves t) /\
  ec_create (attr oc t) = lcount KCreate (leaves t) /\
  ec_ccont (attr oc t) = lcount KCreate (leaves t) /\
  ec_wcont (attr oc t) = lcount KWait (leaves t) /\
  ec_ocont (attr oc t) = (if oc then lcount KOther (leaves t) else 0).

Lemma attr_spec_items : forall oc items, Forall (attr_spec oc) items ->
  zsum (map (fun x => ec_end (attr oc x)) items) + zsum (map pend_end items) = lcount KCreate (flat_map leaves items) /\
  zsum (map (fun x => ec_create (attr oc x)) items) = lcount KCreate (flat_map leaves items) /\
  zsum (map (fun x => ec_ccont (attr oc x)) items) = lcount KCreate (flat_map leaves items) /\
  zsum (map (fun x => ec_wcont (attr oc x)) items) = lcount KWait (flat_map leaves items) /\
  zsum (map (fun x => ec_ocont (attr oc x)) items) = (if oc then lcount KOther (flat_map leaves items) else 0).
Proof.
  intros oc items H. induction H as [|x r Hx _ IH].
  - cbn. destruct oc; repeat split.
  - destruct Hx as (H1 & H2 & H3 & H4 & H5). destruct IH as (I1 & I2 & I3 & I4 & I5).
    cbn [map flat_map]. rewrite !zsum_cons, !lcount_app.
    repeat split; try lia. destruct oc; lia.
Qed.

Theorem attr_counts : forall oc t c, wf c t = true -> attr_spec oc t.
Proof.
  intros oc t. induction t as [l|l ch IH|items w IH|items e IH] using tree_ind'; intros c Hwf.
  - unfold attr_spec, pend_end; cbn. destruct oc; cbn; repeat split.
  - destruct c; cbn in Hwf; try discriminate.
    destruct (wf_child_task _ Hwf) as (items & e & ->).
    destruct (IH CChild Hwf) as (H1 & H2 & H3 & H4 & H5).
    unfold pend_end in H1; cbn [is_create_t] in H1.
    remember (Task items e) as tk eqn:Etk.
    unfold attr_spec, pend_end. cbn [attr is_create_t].
    change (leaves (Create l tk)) with ([(KCreate, l)] ++ leaves tk).
    rewrite !lcount_app. unfold ec_add; cbn [ec_end ec_create ec_ccont ec_wcont ec_ocont].
    change (lcount KCreate [(KCreate, l)]) with 1. change (lcount KWait [(KCreate, l)]) with 0.
    change (lcount KOther [(KCreate, l)]) with 0.
    repeat split; try lia. destruct oc; lia.
  - assert (Hit : Forall (fun x => wf CSect x = true) items)
      by (destruct c; cbn in Hwf; try discriminate; apply wf_forall; exact Hwf).
    assert (Hsp : Forall (attr_spec oc) items).
    { eapply Forall_impl2; [|exact IH|exact Hit]. cbn. intros x H1 H2. exact (H1 _ H2). }
    destruct (attr_spec_items _ _ Hsp) as (I1 & I2 & I3 & I4 & I5).
    unfold attr_spec, pend_end. cbn [attr is_create_t leaves].
    destruct (ec_sum_proj (map (attr oc) items)) as (P1 & P2 & P3 & P4 & P5).
    rewrite !map_map in *.
    rewrite !lcount_app. unfold ec_add; cbn [ec_end ec_create ec_ccont ec_wcont ec_ocont].
    rewrite P1, P2, P3, P4, P5, ndc_pend.
    change (lcount KCreate [(KWait, w)]) with 0. change (lcount KWait [(KWait, w)]) with 1.
    change (lcount KOther [(KWait, w)]) with 0.
    repeat split; try lia. destruct oc; lia.
  - assert (Hit : Forall (fun x => wf CTask x = true) items)
      by (destruct c; cbn in Hwf; try discriminate; apply wf_forall; exact Hwf).
    assert (Hsp : Forall (attr_spec oc) items).
    { eapply Forall_impl2; [|exact IH|exact Hit]. cbn. intros x H1 H2. exact (H1 _ H2). }
    destruct (attr_spec_items _ _ Hsp) as (I1 & I2 & I3 & I4 & I5).
    assert (Hnp : zsum (map pend_end items) = 0).
    { clear - Hit. induction Hit as [|x r Hx _ IHr]; [reflexivity|].
      cbn [map]. rewrite zsum_cons, IHr.
      destruct (wf_task_item _ Hx) as [(l & ->)|(it & w & -> & _)]; reflexivity. }
    unfold attr_spec, pend_end. cbn [attr is_create_t leaves].
    destruct (ec_sum_proj (map (attr oc) items)) as (P1 & P2 & P3 & P4 & P5).
    rewrite !map_map in *.
    rewrite !lcount_app. rewrite P1, P2, P3, P4, P5.
    change (lcount KCreate [(KEnd, e)]) with 0. change (lcount KWait [(KEnd, e)]) with 0.
    change (lcount KOther [(KEnd, e)]) with 0.
    repeat split; try lia. destruct oc; lia.
Qed.

(** ** 4d. the explicit DAG: every edge produced by an interval is consumed exactly once *)
Definition cnt (k : ekind) (l : list pred) : Z :=
  Z.of_nat (length (filter (fun p : pred => ekind_eqb (snd p) k) l)).

Lemma cnt_app : forall k a b, cnt k (a ++ b) = cnt k a + cnt k b.
Proof. intros; unfold cnt; rewrite filter_app, app_length, Nat2Z.inj_add; reflexivity. Qed.
Lemma cnt_nil : forall k, cnt k [] = 0.
Proof. reflexivity. Qed.
Lemma cnt_cons : forall k p l, cnt k (p :: l) = (if ekind_eqb (snd p) k then 1 else 0) + cnt k l.
Proof.
  intros; unfold cnt; cbn [filter]. destruct (ekind_eqb (snd p) k); [|lia].
  cbn [length]. rewrite Nat2Z.inj_succ. lia.
Qed.

Definition rows_cnt (k : ekind) (rows : list row) : Z := cnt k (flat_map r_preds rows).
Lemma rows_cnt_app : forall k a b, rows_cnt k (a ++ b) = rows_cnt k a + rows_cnt k b.
Proof. intros; unfold rows_cnt; rewrite flat_map_app, cnt_app; reflexivity. Qed.
Lemma rows_cnt_one : forall k r, rows_cnt k [r] = cnt k (r_preds r).
Proof. intros; unfold rows_cnt; cbn. rewrite app_nil_r. reflexivity. Qed.
Lemma rows_cnt_cons : forall k r l, rows_cnt k (r :: l) = cnt k (r_preds r) + rows_cnt k l.
Proof. intros; unfold rows_cnt; cbn [flat_map]. rewrite cnt_app. reflexivity. Qed.
Lemma edge_count_rows_cnt : forall k rows, edge_count k rows = rows_cnt k rows.
Proof. reflexivity. Qed.

(** number of edges of kind k that leave the intervals of a list *)
Definition gen (k : ekind) (l : list (nkind * leaf)) : Z :=
  match k with
  | EEnd => lcount KEnd l
  | ECreate | ECreateCont => lcount KCreate l
  | EWaitCont => lcount KWait l
  | EOtherCont => lcount KOther l
  end.
Lemma gen_app : forall k a b, gen k (a ++ b) = gen k a + gen k b.
Proof. intros [] a b; cbn [gen]; apply lcount_app. Qed.

Definition conserved (k : ekind) (t : tree) : Prop :=
  forall o ins, let r := dag t o ins in
    rows_cnt k (d_rows r) + cnt k (d_outs r) + cnt k (d_pend r) = cnt k ins + gen k (leaves t).

Lemma dag_items_conserved : forall k items, Forall (conserved k) items ->
  forall o ins, let r := dag_items dag items o ins in
    rows_cnt k (d_rows r) + cnt k (d_outs r) + cnt k (d_pend r) = cnt k ins + gen k (flat_map leaves items).
Proof.
  intros k items H. induction H as [|x r Hx _ IH]; intros o ins; cbn zeta.
  - cbn [dag_items flat_map d_rows d_outs d_pend]. unfold rows_cnt; cbn [flat_map].
    rewrite !cnt_nil. destruct k; cbn [gen]; change (lcount _ []) with 0; lia.
  - cbn [dag_items flat_map d_rows d_outs d_pend].
    specialize (Hx o ins). cbn zeta in Hx.
    specialize (IH (o + length (d_rows (dag x o ins)))%nat (d_outs (dag x o ins))). cbn zeta in IH.
    rewrite rows_cnt_app, cnt_app, gen_app. lia.
Qed.

Ltac kcase k :=
  destruct k; cbn [ekind_eqb gen snd] in *; unfold lcount in *;
  cbn [filter nkind_eqb fst length] in *; lia.

Theorem dag_conserved : forall k t, conserved k t.
Proof.
  intros k t. induction t as [l|l c IH|items w IH|items e IH] using tree_ind'; intros o ins; cbn zeta.
  - cbn [dag d_rows d_outs d_pend leaves]. rewrite rows_cnt_one, cnt_cons, !cnt_nil. cbn [r_preds snd].
    kcase k.
  - cbn [dag d_rows d_outs d_pend].
    specialize (IH (S o) [(o, ECreate)]). cbn zeta in IH.
    change (leaves (Create l c)) with ([(KCreate, l)] ++ leaves c).
    rewrite rows_cnt_cons, cnt_app, gen_app, cnt_cons, cnt_nil. cbn [r_preds snd].
    rewrite cnt_cons, cnt_nil in IH. cbn [snd] in IH.
    kcase k.
  - cbn [dag d_rows d_outs d_pend leaves].
    pose proof (dag_items_conserved k items IH o ins) as H. cbn zeta in H.
    rewrite rows_cnt_app, rows_cnt_one, cnt_cons, gen_app, cnt_nil. cbn [r_preds snd].
    kcase k.
  - cbn [dag d_rows d_outs d_pend leaves].
    pose proof (dag_items_conserved k items IH o ins) as H. cbn zeta in H.
    rewrite rows_cnt_app, rows_cnt_one, cnt_cons, gen_app, cnt_nil. cbn [r_preds snd].
    kcase k.
Qed.

(** a well-nested task leaves exactly one edge dangling: the end edge of its last interval *)
Lemma dag_items_pend_nil : forall items, Forall (fun x => wf CTask x = true) items ->
  forall o ins, d_pend (dag_items dag items o ins) = [].
Proof.
  intros items H. induction H as [|x r Hx _ IH]; intros o ins; [reflexivity|].
  cbn [dag_items d_pend]. rewrite IH.
  destruct (wf_task_item _ Hx) as [(l & ->)|(it & w & -> & _)]; reflexivity.
Qed.

Lemma dag_task_outs : forall t, wf CChild t = true -> forall o ins,
  d_pend (dag t o ins) = [] /\ exists v, d_outs (dag t o ins) = [(v, EEnd)].
Proof.
  intros t Hwf o ins. destruct (wf_child_task _ Hwf) as (items & e & ->).
  cbn in Hwf. cbn [dag d_pend d_outs]. split; [|eauto].
  apply dag_items_pend_nil, wf_forall, Hwf.
Qed.

(** numbers of end and create intervals *)
Lemma ends_creates : forall t c, wf c t = true ->
  lcount KEnd (leaves t) = lcount KCreate (leaves t) + (match t with Task _ _ => 1 | _ => 0 end).
Proof.
  induction t as [l|l ch IH|items w IH|items e IH] using tree_ind'; intros c Hwf.
  - reflexivity.
  - destruct c; cbn in Hwf; try discriminate.
    destruct (wf_child_task _ Hwf) as (items & e & ->).
    specialize (IH CChild Hwf). cbn match in IH.
    change (leaves (Create l (Task items e))) with ([(KCreate, l)] ++ leaves (Task items e)).
    rewrite !lcount_app, IH. change (lcount KEnd [(KCreate, l)]) with 0. change (lcount KCreate [(KCreate, l)]) with 1. lia.
  - assert (Hit : Forall (fun x => wf CSect x = true) items)
      by (destruct c; cbn in Hwf; try discriminate; apply wf_forall; exact Hwf).
    cbn [leaves]. rewrite !lcount_app, !lcount_flat.
    change (lcount KEnd [(KWait, w)]) with 0. change (lcount KCreate [(KWait, w)]) with 0.
    assert (zsum (map (fun x => lcount KEnd (leaves x)) items) = zsum (map (fun x => lcount KCreate (leaves x)) items)); [|lia].
    f_equal. apply map_ext_Forall. eapply Forall_impl2; [|exact IH|exact Hit]. cbn. intros x H1 H2.
    rewrite (H1 _ H2). destruct (wf_sect_item _ H2) as [(l & ->)|[(l & c' & -> & _)|(it & w' & -> & _)]]; lia.
  - assert (Hit : Forall (fun x => wf CTask x = true) items)
      by (destruct c; cbn in Hwf; try discriminate; apply wf_forall; exact Hwf).
    cbn [leaves]. rewrite !lcount_app, !lcount_flat.
    change (lcount KEnd [(KEnd, e)]) with 1. change (lcount KCreate [(KEnd, e)]) with 0.
    assert (zsum (map (fun x => lcount KEnd (leaves x)) items) = zsum (map (fun x => lcount KCreate (leaves x)) items)); [|lia].
    f_equal. apply map_ext_Forall. eapply Forall_impl2; [|exact IH|exact Hit]. cbn. intros x H1 H2.
    rewrite (H1 _ H2). destruct (wf_task_item _ H2) as [(l & ->)|(it & w' & -> & _)]; lia.
Qed.

Theorem dag_edge_counts : forall t, well_nested t ->
  edge_count EEnd (dag_of t) = count_kind KCreate t /\
  edge_count ECreate (dag_of t) = count_kind KCreate t /\
  edge_count ECreateCont (dag_of t) = count_kind KCreate t /\
  edge_count EWaitCont (dag_of t) = count_kind KWait t /\
  edge_count EOtherCont (dag_of t) = count_kind KOther t.
Proof.
  intros t Hwf. unfold dag_of. change edge_count with rows_cnt. rewrite !count_kind_lcount.
  destruct (dag_task_outs t Hwf 0%nat []) as (Hp & v & Ho).
  pose proof (ends_creates t _ Hwf) as Hec.
  destruct (wf_child_task _ Hwf) as (items & e & Et). rewrite Et in Hec at 3.
  repeat split.
  - pose proof (dag_conserved EEnd t 0%nat []) as H. cbn zeta in H. rewrite Hp, Ho in H. cbn in H. cbn [gen] in *. lia.
  - pose proof (dag_conserved ECreate t 0%nat []) as H. cbn zeta in H. rewrite Hp, Ho in H. cbn in H. lia.
  - pose proof (dag_conserved ECreateCont t 0%nat []) as H. cbn zeta in H. rewrite Hp, Ho in H. cbn in H. lia.
  - pose proof (dag_conserved EWaitCont t 0%nat []) as H. cbn zeta in H. rewrite Hp, Ho in H. cbn in H. lia.
  - pose proof (dag_conserved EOtherCont t 0%nat []) as H. cbn zeta in H. rewrite Hp, Ho in H. cbn in H. lia.
Qed.

(** ** 4e. logical edge counts of the root *)
Theorem root_edges : forall oc summ, contracting summ -> forall t, well_nested t ->
  i_edges (root_info oc summ t) =
  mkEC (count_kind KCreate t) (count_kind KCreate t) (count_kind KCreate t) (count_kind KWait t)
       (if oc then count_kind KOther t else 0).
Proof.
  intros oc summ Hs t Hwf.
  destruct (info_eqc_fields _ _ (root_info_rec0 oc summ Hs t)) as (_ & _ & _ & _ & _ & _ & _ & -> & _).
  pose proof (rec0_contrib oc t _ Hwf) as Hc.
  destruct (attr_counts oc t _ Hwf) as (H1 & H2 & H3 & H4 & H5).
  destruct (wf_child_task _ Hwf) as (items & e & Et). subst t.
  unfold contrib, edge_extra in Hc. cbn [rec0 ninfo] in Hc. rewrite accumulate_kind, ec_add_zero_r in Hc.
  cbn [rec0 ninfo]. rewrite Hc. unfold pend_end in H1. cbn [is_create_t] in H1.
  rewrite !count_kind_lcount. apply ec_ext; cbn [ec_end ec_create ec_ccont ec_wcont ec_ocont]; lia.
Qed.

(** * 5. Critical path *)

(** ** 5a. the accumulation of t_inf in closed form *)
Definition tin (x : node) : Z := i_tinf (ninfo x).
Definition serial (l : list node) : Z := zsum (map tin l).
(** lengths of the paths that leave the serial chain at a create_task interval and run through
    the created task; [s] = length of the chain before the list *)
Fixpoint pendl (s : Z) (l : list node) : list Z :=
  match l with
  | [] => []
  | x :: r => (match x with NCreate _ c => [s + tin x + tin c] | _ => [] end) ++ pendl (s + tin x) r
  end.

Lemma acc_step_tinf : forall oc h st x, i_tinf (a_info (acc_step oc h st x)) = i_tinf (a_info st) + tin x.
Proof. intros oc h st [xi|xi c|xi ch]; unfold acc_step, tin; reflexivity. Qed.

Lemma acc_step_alt : forall oc h st x,
  a_alt (acc_step oc h st x) =
  match x with NCreate _ c => Z.max (i_tinf (a_info st) + tin x + tin c) (a_alt st) | _ => a_alt st end.
Proof. intros oc h st [xi|xi c|xi ch]; unfold acc_step, tin; reflexivity. Qed.

Lemma acc_loop_tinf : forall oc l st, i_tinf (a_info (acc_loop oc st l)) = i_tinf (a_info st) + serial l.
Proof.
  intros oc; induction l as [|x r IH]; intros st; cbn [acc_loop]; [unfold serial; cbn; lia|].
  rewrite IH, acc_step_tinf. unfold serial; cbn [map]. rewrite zsum_cons. lia.
Qed.

Lemma acc_loop_alt : forall oc l st, 0 <= a_alt st ->
  a_alt (acc_loop oc st l) = Z.max (a_alt st) (max0 (pendl (i_tinf (a_info st)) l)).
Proof.
  intros oc; induction l as [|x r IH]; intros st Ha; cbn [acc_loop pendl].
  - change (max0 []) with 0. lia.
  - rewrite IH.
    + rewrite acc_step_alt, acc_step_tinf, max0_app.
      destruct x as [xi|xi c|xi ch]; cbn [app]; rewrite ?max0_cons; change (max0 []) with 0;
        match goal with |- context [max0 (pendl ?s r)] => pose proof (max0_nonneg (pendl s r)) end; lia.
    + rewrite acc_step_alt. destruct x; lia.
Qed.

Lemma accumulate_tinf : forall oc k l x,
  i_tinf (accumulate oc k (l ++ [x])) = Z.max (max0 (pendl 0 (l ++ [x]))) (serial (l ++ [x])).
Proof.
  intros. rewrite accumulate_app_one. unfold acc_finish; cbn [i_tinf].
  rewrite acc_loop_alt by (cbn; lia). rewrite acc_loop_tinf. cbn [acc_init a_info a_alt i_tinf].
  pose proof (max0_nonneg (pendl 0 (l ++ [x]))). lia.
Qed.

Lemma pendl_shift : forall l s, pendl s l = map (Z.add s) (pendl 0 l).
Proof.
  induction l as [|x r IH]; intros s; [reflexivity|].
  cbn [pendl]. rewrite map_app, (IH (s + tin x)), (IH (0 + tin x)), map_map.
  f_equal.
  - destruct x; cbn [map]; try reflexivity. f_equal. lia.
  - apply map_ext. intros z. lia.
Qed.

Lemma pendl_app : forall a b s, pendl s (a ++ b) = pendl s a ++ pendl (s + serial a) b.
Proof.
  induction a as [|x r IH]; intros b s.
  - cbn. unfold serial; cbn. f_equal. lia.
  - cbn [app pendl]. rewrite IH, app_assoc. f_equal. f_equal.
    unfold serial; cbn [map]. rewrite zsum_cons. lia.
Qed.

Lemma serial_app : forall a b, serial (a ++ b) = serial a + serial b.
Proof. intros; unfold serial; rewrite map_app, zsum_app; reflexivity. Qed.

Lemma max0_shift : forall L b s, 0 <= b -> 0 <= s ->
  Z.max (b + s) (max0 (map (Z.add b) L)) = b + Z.max s (max0 L).
Proof.
  induction L as [|z r IH]; intros b s Hb Hs.
  - cbn. lia.
  - cbn [map]. rewrite !max0_cons. specialize (IH b s Hb Hs). lia.
Qed.

(** critical path of the subgraph recorded for a tree *)
Definition Ti (oc : bool) (t : tree) : Z := tin (rec0 oc t).
Definition Hm (oc : bool) (t : tree) : Z :=
  match t with Create l c => llen l + Ti oc c | _ => Ti oc t end.

Definition nonnegl (l : list (nkind * leaf)) : Prop := Forall (fun kl => 0 <= llen (snd kl)) l.

Lemma Ti_nonneg : forall oc t, nonnegl (leaves t) -> 0 <= Ti oc t.
Proof.
  intros oc [l|l c|items w|items e] H; unfold Ti, tin; cbn [rec0 ninfo].
  - inversion H; subst. cbn in *. assumption.
  - inversion H; subst. cbn in *. assumption.
  - rewrite accumulate_tinf. pose proof (max0_nonneg (pendl 0 (map (rec0 oc) items ++ [NLeaf (leaf_info KWait w)]))). lia.
  - rewrite accumulate_tinf. pose proof (max0_nonneg (pendl 0 (map (rec0 oc) items ++ [NLeaf (leaf_info KEnd e)]))). lia.
Qed.

Lemma nonnegl_app : forall a b, nonnegl (a ++ b) <-> nonnegl a /\ nonnegl b.
Proof. intros; unfold nonnegl; apply Forall_app. Qed.

Lemma nonnegl_flat : forall items, nonnegl (flat_map leaves items) -> Forall (fun x => nonnegl (leaves x)) items.
Proof.
  induction items as [|x r IH]; intros H; [constructor|].
  cbn [flat_map] in H. apply nonnegl_app in H. destruct H as [H1 H2]. constructor; [exact H1|apply IH, H2].
Qed.

(** ** 5b. t_inf never exceeds t_1 *)
Definition tin_ok (x : node) : Prop :=
  0 <= tin x /\ tin x + child_part i_tinf x <= full_t1 x /\ 0 <= child_part i_tinf x.

Lemma pendl_le : forall l s, Forall tin_ok l ->
  (forall z, In z (pendl s l) -> z <= s + zsum (map full_t1 l)) /\ serial l <= zsum (map full_t1 l) /\ 0 <= serial l.
Proof.
  induction l as [|x r IH]; intros s H.
  - unfold serial; cbn. split; [intros z []|lia].
  - inversion H as [|? ? Hx Hr]; subst. destruct Hx as (H0 & H1 & H2).
    destruct (IH (s + tin x) Hr) as (I1 & I2 & I3).
    cbn [pendl map]. rewrite zsum_cons. unfold serial in *; cbn [map]. rewrite zsum_cons.
    repeat split; try lia.
    intros z Hz. apply in_app_or in Hz. destruct Hz as [Hz|Hz].
    + destruct x as [xi|xi c|xi ch]; cbn in Hz; try contradiction. destruct Hz as [<-|[]].
      unfold child_part in H1, H2. unfold tin in *. lia.
    + specialize (I1 _ Hz). unfold full_t1, child_part in *. lia.
Qed.

Theorem rec0_tinf_le : forall oc t c, wf c t = true -> nonnegl (leaves t) -> tin_ok (rec0 oc t).
Proof.
  intros oc t. induction t as [l|l ch IH|items w IH|items e IH] using tree_ind'; intros c Hwf Hnn.
  - inversion Hnn; subst. unfold tin_ok, tin, full_t1, child_part; cbn in *. lia.
  - destruct c; cbn in Hwf; try discriminate.
    change (leaves (Create l ch)) with ([(KCreate, l)] ++ leaves ch) in Hnn.
    apply nonnegl_app in Hnn. destruct Hnn as [Hl Hc]. inversion Hl; subst. cbn in *.
    destruct (IH CChild Hwf Hc) as (I0 & I1 & I2).
    destruct (wf_child_task _ Hwf) as (items & e & ->).
    unfold tin_ok, tin, full_t1, child_part in *. cbn [rec0 ninfo leaf_info i_tinf i_t1] in *. lia.
  - assert (Hit : Forall (fun x => wf CSect x = true) items)
      by (destruct c; cbn in Hwf; try discriminate; apply wf_forall; exact Hwf).
    cbn [leaves] in Hnn. apply nonnegl_app in Hnn. destruct Hnn as [Hi Hw].
    apply nonnegl_flat in Hi. inversion Hw; subst. cbn in *.
    assert (Hok : Forall tin_ok (map (rec0 oc) items ++ [NLeaf (leaf_info KWait w)])).
    { apply Forall_app. split.
      - apply Forall_map. eapply Forall_impl2; [|exact IH|]. 2:{ eapply Forall_impl2; [|exact Hit|exact Hi]. intros x A B. exact (conj A B). }
        cbn. intros x A [B C]. exact (A _ B C).
      - constructor; [|constructor]. unfold tin_ok, tin, full_t1, child_part; cbn. lia. }
    destruct (pendl_le _ 0 Hok) as (P1 & P2 & P3).
    unfold tin_ok, tin, full_t1, child_part. cbn [rec0 ninfo]. rewrite accumulate_tinf, accumulate_t1.
    pose proof (max0_nonneg (pendl 0 (map (rec0 oc) items ++ [NLeaf (leaf_info KWait w)]))) as Hm0.
    assert (max0 (pendl 0 (map (rec0 oc) items ++ [NLeaf (leaf_info KWait w)])) <=
            zsum (map full_t1 (map (rec0 oc) items ++ [NLeaf (leaf_info KWait w)]))).
    { apply max0_le; [lia|]. intros z Hz. specialize (P1 _ Hz). lia. }
    lia.
  - assert (Hit : Forall (fun x => wf CTask x = true) items)
      by (destruct c; cbn in Hwf; try discriminate; apply wf_forall; exact Hwf).
    cbn [leaves] in Hnn. apply nonnegl_app in Hnn. destruct Hnn as [Hi Hw].
    apply nonnegl_flat in Hi. inversion Hw; subst. cbn in *.
    assert (Hok : Forall tin_ok (map (rec0 oc) items ++ [NLeaf (leaf_info KEnd e)])).
    { apply Forall_app. split.
      - apply Forall_map. eapply Forall_impl2; [|exact IH|]. 2:{ eapply Forall_impl2; [|exact Hit|exact Hi]. intros x A B. exact (conj A B). }
        cbn. intros x A [B C]. exact (A _ B C).
      - constructor; [|constructor]. unfold tin_ok, tin, full_t1, child_part; cbn. lia. }
    destruct (pendl_le _ 0 Hok) as (P1 & P2 & P3).
    unfold tin_ok, tin, full_t1, child_part. cbn [rec0 ninfo]. rewrite accumulate_tinf, accumulate_t1.
    pose proof (max0_nonneg (pendl 0 (map (rec0 oc) items ++ [NLeaf (leaf_info KEnd e)]))) as Hm0.
    assert (max0 (pendl 0 (map (rec0 oc) items ++ [NLeaf (leaf_info KEnd e)])) <=
            zsum (map full_t1 (map (rec0 oc) items ++ [NLeaf (leaf_info KEnd e)]))).
    { apply max0_le; [lia|]. intros z Hz. specialize (P1 _ Hz). lia. }
    lia.
Qed.

Theorem root_tinf_le_work : forall oc summ, contracting summ -> forall t, well_nested t -> nonneg t ->
  0 <= i_tinf (root_info oc summ t) <= i_t1 (root_info oc summ t).
Proof.
  intros oc summ Hs t Hwf Hnn.
  destruct (info_eqc_fields _ _ (root_info_rec0 oc summ Hs t)) as (_ & _ & _ & _ & -> & -> & _).
  destruct (rec0_tinf_le oc t _ Hwf Hnn) as (H0 & H1 & H2).
  destruct (wf_child_task _ Hwf) as (items & e & ->).
  unfold tin, full_t1, child_part in *. cbn [rec0 ninfo] in *. lia.
Qed.

(** ** 5c. [dp] computes the weight of the heaviest path ending at each node (any DAG given by
    predecessor lists in a topological numbering) *)
Lemma dp_app : forall r1 r2 acc, dp acc (r1 ++ r2) = dp (dp acc r1) r2.
Proof. induction r1 as [|r r1 IH]; intros r2 acc; [reflexivity|]. cbn [app dp]. apply IH. Qed.

Lemma look_app_l : forall l1 l2 p, (fst p < length l1)%nat -> look (l1 ++ l2) p = look l1 p.
Proof. intros l1 l2 p H. unfold look. apply app_nth1. exact H. Qed.

Lemma map_look_app_l : forall l1 l2 ps, (forall p, In p ps -> (fst p < length l1)%nat) ->
  map (look (l1 ++ l2)) ps = map (look l1) ps.
Proof. intros l1 l2 ps H. apply map_ext_in. intros p Hp. apply look_app_l, H, Hp. Qed.

Definition topo (o : nat) (rows : list row) : Prop :=
  forall j r, nth_error rows j = Some r -> forall p, In p (r_preds r) -> (fst p < o + j)%nat.

Lemma topo_cons_inv : forall o r rs, topo o (r :: rs) ->
  (forall p, In p (r_preds r) -> (fst p < o)%nat) /\ topo (S o) rs.
Proof.
  intros o r rs H. split.
  - intros p Hp. specialize (H 0%nat r eq_refl p Hp). lia.
  - intros j r' Hj p Hp. specialize (H (S j) r' Hj p Hp). lia.
Qed.

Lemma topo_app : forall o a b, topo o a -> topo (o + length a) b -> topo o (a ++ b).
Proof.
  intros o a b Ha Hb j r Hj p Hp.
  destruct (Nat.lt_ge_cases j (length a)) as [Hlt|Hge].
  - rewrite nth_error_app1 in Hj by exact Hlt. exact (Ha j r Hj p Hp).
  - rewrite nth_error_app2 in Hj by exact Hge. specialize (Hb _ r Hj p Hp). lia.
Qed.

Lemma topo_one : forall o r, (forall p, In p (r_preds r) -> (fst p < o)%nat) -> topo o [r].
Proof.
  intros o r H j r' Hj p Hp. destruct j as [|j].
  - cbn in Hj. inversion Hj; subst. specialize (H p Hp). lia.
  - cbn in Hj. destruct j; discriminate.
Qed.

Lemma topo_cons : forall o r rs, (forall p, In p (r_preds r) -> (fst p < o)%nat) -> topo (S o) rs -> topo o (r :: rs).
Proof.
  intros o r rs H Hr. change (r :: rs) with ([r] ++ rs). apply topo_app; [apply topo_one; exact H|].
  cbn [length]. replace (o + 1)%nat with (S o) by lia. exact Hr.
Qed.

Lemma dp_spec : forall rows acc, topo (length acc) rows ->
  exists vals, dp acc rows = acc ++ vals /\ length vals = length rows /\
    forall j r, nth_error rows j = Some r ->
      nth (length acc + j) (acc ++ vals) 0 =
      llen (r_leaf r) + max0 (map (look (acc ++ vals)) (r_preds r)).
Proof.
  induction rows as [|r0 rs IH]; intros acc Ht.
  - exists []. rewrite app_nil_r. repeat split. intros j r Hj. destruct j; discriminate.
  - destruct (topo_cons_inv _ _ _ Ht) as [H0 Hrs].
    cbn [dp]. set (v := llen (r_leaf r0) + max0 (map (look acc) (r_preds r0))).
    destruct (IH (acc ++ [v])) as (vals & Hdp & Hlen & Hrec).
    { rewrite app_length; cbn [length]. replace (length acc + 1)%nat with (S (length acc)) by lia. exact Hrs. }
    exists (v :: vals). rewrite Hdp, <- app_assoc. cbn [app]. repeat split; [cbn [length]; lia|].
    intros j r Hj. destruct j as [|j].
    + cbn in Hj. inversion Hj; subst r. rewrite Nat.add_0_r.
      rewrite app_nth2 by lia. rewrite Nat.sub_diag. cbn [nth].
      rewrite map_look_app_l by exact H0. reflexivity.
    + cbn [nth_error] in Hj. specialize (Hrec j r Hj).
      rewrite app_length in Hrec. cbn [length] in Hrec. rewrite <- app_assoc in Hrec. cbn [app] in Hrec.
      replace (length acc + S j)%nat with (length acc + 1 + j)%nat by lia. exact Hrec.
Qed.

Section Paths.
  Variable rows : list row.
  Hypothesis Htopo : topo 0 rows.
  Let ds := dp [] rows.
  Let D (v : nat) := nth v ds 0.

  Lemma ds_spec : length ds = length rows /\
    forall j r, nth_error rows j = Some r -> D j = llen (r_leaf r) + max0 (map (look ds) (r_preds r)).
  Proof.
    destruct (dp_spec rows [] Htopo) as (vals & Hdp & Hlen & Hrec). cbn [app length] in *.
    unfold D, ds. rewrite Hdp. split; [exact Hlen|]. intros j r Hj. exact (Hrec j r Hj).
  Qed.

  Lemma D_ge_weight : forall v, D v >= node_weight rows v.
  Proof.
    intros v. unfold node_weight. destruct (nth_error rows v) as [r|] eqn:E.
    - rewrite (proj2 ds_spec v r E). pose proof (max0_nonneg (map (look ds) (r_preds r))). lia.
    - unfold D. rewrite nth_overflow; [lia|]. rewrite (proj1 ds_spec). apply nth_error_None, E.
  Qed.

  Lemma D_edge : forall u v, edge_in rows u v -> D u + node_weight rows v <= D v.
  Proof.
    intros u v (r & Hr & Hin). unfold node_weight. rewrite Hr. rewrite (proj2 ds_spec v r Hr).
    apply in_map_iff in Hin. destruct Hin as (p & Hp & Hpin). subst u.
    assert (look ds p <= max0 (map (look ds) (r_preds r))) by (apply max0_ge, in_map, Hpin).
    unfold D. change (nth (fst p) ds 0) with (look ds p). lia.
  Qed.

  Lemma path_bound : forall p, is_path rows p ->
    D (hd 0%nat p) + path_weight rows (tl p) <= D (last p 0%nat).
  Proof.
    intros p H. induction H as [v Hv|u v p' Hu He Hp IH].
    - cbn. unfold path_weight; cbn. lia.
    - cbn [hd tl]. change (last (u :: v :: p') 0%nat) with (last (v :: p') 0%nat).
      cbn [hd tl] in IH. unfold path_weight in *. cbn [map]. rewrite zsum_cons.
      pose proof (D_edge u v He). lia.
  Qed.

  Lemma D_le_longest : forall v, (v < length rows)%nat -> D v <= longest_path rows.
  Proof.
    intros v Hv. unfold longest_path. apply max0_ge. unfold D. apply nth_In.
    fold ds. rewrite (proj1 ds_spec). exact Hv.
  Qed.

  Lemma is_path_nonempty_last : forall p, is_path rows p -> (last p 0%nat < length rows)%nat.
  Proof.
    intros p H. induction H as [v Hv|u v p' Hu He Hp IH]; [exact Hv|].
    change (last (u :: v :: p') 0%nat) with (last (v :: p') 0%nat). exact IH.
  Qed.

  Theorem path_le_longest : forall p, is_path rows p -> path_weight rows p <= longest_path rows.
  Proof.
    intros p H. pose proof (path_bound p H) as Hb. pose proof (is_path_nonempty_last p H) as Hl.
    pose proof (D_le_longest _ Hl).
    destruct H as [v Hv|u v p' Hu He Hp]; cbn [hd tl] in Hb; unfold path_weight in *; cbn [map] in *;
      rewrite ?zsum_cons in *.
    - pose proof (D_ge_weight v). cbn in *. lia.
    - pose proof (D_ge_weight u). lia.
  Qed.

  Lemma is_path_snoc : forall p v, is_path rows p -> edge_in rows (last p 0%nat) v -> (v < length rows)%nat ->
    is_path rows (p ++ [v]).
  Proof.
    intros p v H. induction H as [u Hu|u w p' Hu He Hp IH]; intros Hev Hv.
    - cbn in Hev. cbn. apply path_cons; [exact Hu|exact Hev|apply path_one; exact Hv].
    - change (last (u :: w :: p') 0%nat) with (last (w :: p') 0%nat) in Hev.
      cbn [app]. apply path_cons; [exact Hu|exact He|]. apply IH; assumption.
  Qed.

  Lemma path_weight_snoc : forall p v, path_weight rows (p ++ [v]) = path_weight rows p + node_weight rows v.
  Proof. intros. unfold path_weight. rewrite map_app, zsum_app. cbn. lia. Qed.

  Lemma last_snoc : forall (p : list nat) v d, last (p ++ [v]) d = v.
  Proof.
    induction p as [|y p IH]; intros v d; [reflexivity|].
    cbn [app]. destruct p as [|z p]; [reflexivity|]. apply (IH v d).
  Qed.

  Theorem D_attained : forall n v, (v < n)%nat -> (v < length rows)%nat ->
    exists p, is_path rows p /\ last p 0%nat = v /\ path_weight rows p = D v.
  Proof.
    induction n as [|n IH]; intros v Hvn Hv; [lia|].
    destruct (nth_error rows v) as [r|] eqn:Er; [|apply nth_error_None in Er; lia].
    pose proof (proj2 ds_spec v r Er) as HD.
    destruct (max0_attained (map (look ds) (r_preds r))) as [Hz|Hin].
    - exists [v]. split; [apply path_one; exact Hv|]. split; [reflexivity|].
      unfold path_weight; cbn. unfold node_weight. rewrite Er, HD, Hz. lia.
    - apply in_map_iff in Hin. destruct Hin as (pr & Hpr & Hprin).
      pose proof (Htopo v r Er pr Hprin) as Hlt. cbn in Hlt.
      destruct (IH (fst pr)) as (q & Hq & Hql & Hqw); [lia|lia|].
      exists (q ++ [v]). split; [|split].
      + apply is_path_snoc; [exact Hq| |exact Hv]. rewrite Hql. exists r. split; [exact Er|].
        apply in_map. exact Hprin.
      + apply last_snoc.
      + rewrite path_weight_snoc, Hqw. unfold node_weight. rewrite Er, HD, <- Hpr. unfold D, look. lia.
  Qed.

  Theorem longest_attained : rows <> [] -> (forall v, 0 <= node_weight rows v) ->
    exists p, is_path rows p /\ path_weight rows p = longest_path rows.
  Proof.
    intros Hne Hw. unfold longest_path. fold ds.
    assert (H0 : (0 < length rows)%nat) by (destruct rows; [congruence|cbn; lia]).
    destruct (max0_attained ds) as [Hz|Hin].
    - destruct (D_attained 1 0%nat) as (p & Hp & _ & Hpw); [lia|exact H0|].
      exists p. split; [exact Hp|]. rewrite Hpw, Hz.
      pose proof (D_ge_weight 0%nat). pose proof (Hw 0%nat).
      assert (D 0%nat <= max0 ds) by (apply max0_ge; unfold D; apply nth_In; rewrite (proj1 ds_spec); exact H0).
      lia.
    - destruct (In_nth _ _ 0 Hin) as (v & Hv & Hnv). rewrite (proj1 ds_spec) in Hv.
      destruct (D_attained (S v) v) as (p & Hp & _ & Hpw); [lia|exact Hv|].
      exists p. split; [exact Hp|]. rewrite Hpw. unfold D. exact Hnv.
  Qed.
End Paths.

(** ** 5d. the numbering of the explicit DAG is topological *)
Definition ids_below (n : nat) (ps : list pred) : Prop := forall p, In p ps -> (fst p < n)%nat.

Lemma ids_below_app : forall n a b, ids_below n (a ++ b) <-> ids_below n a /\ ids_below n b.
Proof.
  intros n a b; unfold ids_below; split.
  - intros H; split; intros p Hp; apply H, in_or_app; [left|right]; exact Hp.
  - intros [Ha Hb] p Hp. apply in_app_or in Hp. destruct Hp; [apply Ha|apply Hb]; assumption.
Qed.
Lemma ids_below_mono : forall n m ps, (n <= m)%nat -> ids_below n ps -> ids_below m ps.
Proof. intros n m ps H Hp p Hin. specialize (Hp p Hin). lia. Qed.
Lemma ids_below_one : forall n v k, (v < n)%nat -> ids_below n [(v, k)].
Proof. intros n v k H p [<-|[]]. exact H. Qed.

Definition dag_topo_at (t : tree) : Prop :=
  forall o ins, ids_below o ins ->
    topo o (d_rows (dag t o ins)) /\
    ids_below (o + length (d_rows (dag t o ins))) (d_outs (dag t o ins) ++ d_pend (dag t o ins)).

Lemma dag_items_topo : forall items, Forall dag_topo_at items ->
  forall o ins, ids_below o ins ->
    topo o (d_rows (dag_items dag items o ins)) /\
    ids_below (o + length (d_rows (dag_items dag items o ins)))
              (d_outs (dag_items dag items o ins) ++ d_pend (dag_items dag items o ins)).
Proof.
  intros items H. induction H as [|x r Hx _ IH]; intros o ins Hins.
  - cbn [dag_items d_rows d_outs d_pend length]. rewrite Nat.add_0_r, app_nil_r. split; [|exact Hins].
    intros j r Hj. destruct j; discriminate.
  - cbn [dag_items d_rows d_outs d_pend].
    destruct (Hx o ins Hins) as (Hxt & Hxo). apply ids_below_app in Hxo. destruct Hxo as [Hxo Hxp].
    destruct (IH (o + length (d_rows (dag x o ins)))%nat (d_outs (dag x o ins)) Hxo) as (Hrt & Hro).
    apply ids_below_app in Hro. destruct Hro as [Hro Hrp].
    rewrite app_length, Nat.add_assoc. split.
    + apply topo_app; assumption.
    + apply ids_below_app. split; [exact Hro|]. apply ids_below_app. split; [|exact Hrp].
      eapply ids_below_mono; [|exact Hxp]. lia.
Qed.

Theorem dag_topo : forall t, dag_topo_at t.
Proof.
  induction t as [l|l c IH|items w IH|items e IH] using tree_ind'; intros o ins Hins.
  - cbn [dag d_rows d_outs d_pend length]. split; [apply topo_one; exact Hins|].
    rewrite app_nil_r. apply ids_below_one. lia.
  - cbn [dag d_rows d_outs d_pend length].
    destruct (IH (S o) [(o, ECreate)]) as (Hc & Hco); [apply ids_below_one; lia|].
    split; [apply topo_cons; [exact Hins|exact Hc]|].
    apply ids_below_app. split; [apply ids_below_one; lia|].
    eapply ids_below_mono; [|exact Hco]. lia.
  - cbn [dag d_rows d_outs d_pend].
    destruct (dag_items_topo items IH o ins Hins) as (Ht & Ho). apply ids_below_app in Ho. destruct Ho as [Ho Hp].
    rewrite app_length; cbn [length]. split.
    + apply topo_app; [exact Ht|]. apply topo_one. exact Ho.
    + rewrite app_nil_r. intros p [<-|Hin]; cbn [fst]; [lia|]. specialize (Hp p Hin). lia.
  - cbn [dag d_rows d_outs d_pend].
    destruct (dag_items_topo items IH o ins Hins) as (Ht & Ho). apply ids_below_app in Ho. destruct Ho as [Ho Hp].
    rewrite app_length; cbn [length]. split.
    + apply topo_app; [exact Ht|]. apply topo_one. exact Ho.
    + apply ids_below_app. split; [apply ids_below_one; lia|]. eapply ids_below_mono; [|exact Hp]. lia.
Qed.

Lemma dag_topo_all : forall items, Forall dag_topo_at items.
Proof. intros items. apply Forall_forall. intros x _. apply dag_topo. Qed.

Lemma dag_of_topo : forall t, topo 0 (dag_of t).
Proof. intros t. apply (dag_topo t 0%nat []). intros p []. Qed.

(** ** 5e. the DP on the explicit DAG follows the recursive accumulation *)
Lemma serial_rec0_nonneg : forall oc items, Forall (fun x => nonnegl (leaves x)) items -> 0 <= serial (map (rec0 oc) items).
Proof.
  intros oc items H. induction H as [|x r Hx _ IH]; [unfold serial; cbn; lia|].
  unfold serial in *. cbn [map]. rewrite zsum_cons. pose proof (Ti_nonneg oc x Hx). unfold Ti in *. lia.
Qed.

Lemma nth_app_nonneg : forall (acc vals : list Z) i, (forall z, In z vals -> 0 <= z) -> (length acc <= i)%nat ->
  0 <= nth i (acc ++ vals) 0.
Proof.
  intros acc vals i H Hi. rewrite app_nth2 by lia.
  destruct (Nat.lt_ge_cases (i - length acc) (length vals)) as [Hlt|Hge].
  - apply H, nth_In, Hlt.
  - rewrite nth_overflow by lia. lia.
Qed.

Lemma look_middle : forall (acc vals : list Z) v k, look (acc ++ v :: vals) (length acc, k) = v.
Proof. intros. unfold look. cbn [fst]. apply nth_middle. Qed.

Definition dp_ok (oc : bool) (t : tree) : Prop :=
  forall c, wf c t = true -> nonnegl (leaves t) ->
  forall acc ins, ids_below (length acc) ins ->
    exists vals,
      dp acc (d_rows (dag t (length acc) ins)) = acc ++ vals /\
      length vals = length (d_rows (dag t (length acc) ins)) /\
      (forall z, In z vals -> 0 <= z) /\
      max0 (map (look (acc ++ vals)) (d_outs (dag t (length acc) ins))) = max0 (map (look acc) ins) + Ti oc t /\
      map (look (acc ++ vals)) (d_pend (dag t (length acc) ins)) =
        (match t with Create _ _ => [max0 (map (look acc) ins) + Hm oc t] | _ => [] end) /\
      (forall z, In z vals ->
         z <= max0 (map (look (acc ++ vals)) (d_outs (dag t (length acc) ins) ++ d_pend (dag t (length acc) ins)))).

Lemma dp_items : forall oc c items,
  Forall (dp_ok oc) items -> Forall (fun x => wf c x = true) items -> Forall (fun x => nonnegl (leaves x)) items ->
  forall acc ins, ids_below (length acc) ins ->
    exists vals,
      dp acc (d_rows (dag_items dag items (length acc) ins)) = acc ++ vals /\
      length vals = length (d_rows (dag_items dag items (length acc) ins)) /\
      (forall z, In z vals -> 0 <= z) /\
      max0 (map (look (acc ++ vals)) (d_outs (dag_items dag items (length acc) ins))) =
        max0 (map (look acc) ins) + serial (map (rec0 oc) items) /\
      map (look (acc ++ vals)) (d_pend (dag_items dag items (length acc) ins)) =
        map (Z.add (max0 (map (look acc) ins))) (pendl 0 (map (rec0 oc) items)) /\
      (forall z, In z vals ->
         z <= max0 (map (look (acc ++ vals))
                        (d_outs (dag_items dag items (length acc) ins) ++ d_pend (dag_items dag items (length acc) ins)))).
Proof.
  intros oc c items Hok. induction Hok as [|x r Hx _ IH]; intros Hwf Hnn acc ins Hins.
  - exists []. cbn [dag_items d_rows d_outs d_pend dp map pendl length]. rewrite app_nil_r.
    unfold serial; cbn [map zsum fold_right]. repeat split; try (intros z []). lia.
  - inversion Hwf as [|? ? Hwx Hwr]; subst. inversion Hnn as [|? ? Hnx Hnr]; subst.
    destruct (Hx c Hwx Hnx acc ins Hins) as (va & A1 & A2 & A3 & A4 & A5 & A6).
    destruct (dag_topo x (length acc) ins Hins) as (_ & Hids). rewrite <- A2 in Hids.
    apply ids_below_app in Hids. destruct Hids as [Hido Hidp].
    assert (Hlen' : length (acc ++ va) = (length acc + length (d_rows (dag x (length acc) ins)))%nat)
      by (rewrite app_length, A2; reflexivity).
    rewrite <- app_length in Hido, Hidp.
    destruct (IH Hwr Hnr (acc ++ va) (d_outs (dag x (length acc) ins)) Hido) as (vb & B1 & B2 & B3 & B4 & B5 & B6).
    rewrite Hlen' in B1, B2, B4, B5, B6.
    set (ra := dag x (length acc) ins) in *.
    set (rb := dag_items dag r (length acc + length (d_rows ra)) (d_outs ra)) in *.
    pose proof (serial_rec0_nonneg oc r Hnr) as Hser.
    exists (va ++ vb). cbn [dag_items d_rows d_outs d_pend]. fold ra. fold rb.
    rewrite app_assoc.
    assert (Hpa : map (look ((acc ++ va) ++ vb)) (d_pend ra) = map (look (acc ++ va)) (d_pend ra))
      by (apply map_look_app_l; exact Hidp).
    assert (Hoa : map (look ((acc ++ va) ++ vb)) (d_outs ra) = map (look (acc ++ va)) (d_outs ra))
      by (apply map_look_app_l; exact Hido).
    split; [rewrite dp_app, A1; exact B1|].
    split; [rewrite !app_length; lia|].
    split; [intros z Hz; apply in_app_or in Hz; destruct Hz; [apply A3|apply B3]; assumption|].
    split.
    { rewrite B4, A4. unfold serial; cbn [map]. rewrite zsum_cons. unfold Ti. lia. }
    split.
    { rewrite map_app, Hpa, A5, B5, A4. cbn [map pendl]. rewrite map_app.
      rewrite (pendl_shift (map (rec0 oc) r) (0 + tin (rec0 oc x))), map_map.
      apply (f_equal2 (@app Z)).
      - destruct x; cbn [rec0 map]; reflexivity.
      - apply map_ext. intros z. unfold Ti. lia. }
    intros z Hz. rewrite !map_app, !max0_app, Hpa.
    pose proof (max0_nonneg (map (look ((acc ++ va) ++ vb)) (d_pend rb))) as Hp0.
    apply in_app_or in Hz. destruct Hz as [Hz|Hz].
    + specialize (A6 z Hz). rewrite map_app, max0_app, A4 in A6. rewrite B4, A4. lia.
    + specialize (B6 z Hz). rewrite map_app, max0_app in B6. lia.
Qed.

Lemma pendl_task_items : forall oc items s, Forall (fun x => wf CTask x = true) items -> pendl s (map (rec0 oc) items) = [].
Proof.
  intros oc items s H; revert s. induction H as [|x r Hx _ IH]; intros s; [reflexivity|].
  cbn [map pendl]. rewrite IH. destruct (wf_task_item _ Hx) as [(l & ->)|(it & w & -> & _)]; reflexivity.
Qed.

Theorem dag_dp_ok : forall oc t, dp_ok oc t.
Proof.
  intros oc t. induction t as [l|l ch IH|items w IH|items e IH] using tree_ind'; intros c Hwf Hnn acc ins Hins.
  - (* other *)
    inversion Hnn as [|? ? Hl _]; subst. cbn [snd] in Hl.
    pose proof (max0_nonneg (map (look acc) ins)) as Hb.
    set (b := max0 (map (look acc) ins)) in *.
    exists [llen l + b]. cbn [dag d_rows d_outs d_pend dp r_leaf r_preds length map app].
    rewrite look_middle. fold b.
    repeat split.
    + intros z [<-|[]]. lia.
    + rewrite max0_cons. change (max0 []) with 0. unfold Ti, tin; cbn. lia.
    + intros z [<-|[]]. rewrite max0_cons. lia.
  - (* create *)
    destruct c; cbn in Hwf; try discriminate.
    change (leaves (Create l ch)) with ([(KCreate, l)] ++ leaves ch) in Hnn.
    apply nonnegl_app in Hnn. destruct Hnn as [Hl Hc]. inversion Hl as [|? ? Hl' _]; subst. cbn [snd] in Hl'.
    pose proof (max0_nonneg (map (look acc) ins)) as Hb.
    set (b := max0 (map (look acc) ins)) in *.
    set (v := llen l + b).
    assert (Hins' : ids_below (length (acc ++ [v])) [(length acc, ECreate)])
      by (apply ids_below_one; rewrite app_length; cbn; lia).
    destruct (IH CChild Hwf Hc (acc ++ [v]) [(length acc, ECreate)] Hins') as (vc & C1 & C2 & C3 & C4 & C5 & C6).
    assert (Hlen' : length (acc ++ [v]) = S (length acc)) by (rewrite app_length; cbn; lia).
    rewrite Hlen' in C1, C2, C4, C5, C6.
    cbn [map] in C4. rewrite look_middle in C4. rewrite max0_cons in C4. change (max0 []) with 0 in C4.
    destruct (wf_child_task _ Hwf) as (items & e & Ech).
    rewrite <- app_assoc in C1, C4, C5, C6. cbn [app] in C1, C4, C5, C6.
    exists (v :: vc). cbn [dag d_rows d_outs d_pend dp r_leaf r_preds length]. fold b. fold v.
    set (rc := dag ch (S (length acc)) [(length acc, ECreate)]) in *.
    assert (Hv : 0 <= v) by (unfold v; lia).
    assert (HTi : Ti oc (Create l ch) = llen l) by (unfold Ti, tin; reflexivity).
    assert (Hpc : map (look (acc ++ v :: vc)) (d_pend rc) = []) by (rewrite C5, Ech; reflexivity).
    (* the single out-edge of the child task carries its critical path *)
    assert (Hoc : map (look (acc ++ v :: vc)) (d_outs rc) = [v + Ti oc ch]).
    { subst rc. rewrite Ech in *. cbn [dag d_outs] in *. cbn [map] in *.
      rewrite max0_cons in C4. change (max0 []) with 0 in C4.
      f_equal.
      match goal with |- look ?L ?p = _ =>
        assert (0 <= look L p) by (unfold look; change (acc ++ v :: vc) with (acc ++ [v] ++ vc);
                                    rewrite app_assoc; apply nth_app_nonneg; [exact C3|rewrite app_length; cbn; lia])
      end.
      lia. }
    split; [exact C1|]. split; [cbn [length]; lia|].
    split; [intros z [<-|Hz]; [exact Hv|apply C3; exact Hz]|].
    split; [cbn [map]; rewrite look_middle, max0_cons; change (max0 []) with 0; rewrite HTi; unfold v; lia|].
    split; [rewrite map_app, Hoc, Hpc; cbn [app Hm]; f_equal; unfold v; lia|].
    intros z [<-|Hz].
    + cbn [map app]. rewrite look_middle, max0_cons. lia.
    + specialize (C6 z Hz). cbn [map app]. rewrite max0_cons. lia.
  - (* section *)
    assert (Hit : Forall (fun x => wf CSect x = true) items)
      by (destruct c; cbn in Hwf; try discriminate; apply wf_forall; exact Hwf).
    cbn [leaves] in Hnn. apply nonnegl_app in Hnn. destruct Hnn as [Hi Hw].
    apply nonnegl_flat in Hi. inversion Hw as [|? ? Hw' _]; subst. cbn [snd] in Hw'.
    destruct (dp_items oc CSect items IH Hit Hi acc ins Hins) as (vi & I1 & I2 & I3 & I4 & I5 & I6).
    destruct (dag_items_topo items (dag_topo_all items) (length acc) ins Hins) as (_ & Hids).
    rewrite <- I2, <- app_length in Hids. apply ids_below_app in Hids. destruct Hids as [Hido Hidp].
    pose proof (max0_nonneg (map (look acc) ins)) as Hb.
    pose proof (serial_rec0_nonneg oc items Hi) as Hser.
    set (b := max0 (map (look acc) ins)) in *.
    set (ri := dag_items dag items (length acc) ins) in *.
    set (ns := map (rec0 oc) items) in *.
    set (vw := llen w + (b + serial ns)).
    exists (vi ++ [vw]). cbn [dag d_rows d_outs d_pend]. fold ri.
    assert (Hdp : dp acc (d_rows ri ++ [mkRow KWait w (d_outs ri)]) = acc ++ vi ++ [vw]).
    { rewrite dp_app, I1. cbn [dp r_leaf r_preds]. rewrite I4, <- app_assoc. reflexivity. }
    assert (Hwid : look (acc ++ vi ++ [vw]) ((length acc + length (d_rows ri))%nat, EWaitCont) = vw).
    { rewrite <- I2, <- app_length, app_assoc. apply look_middle. }
    assert (Hpi : map (look (acc ++ vi ++ [vw])) (d_pend ri) = map (Z.add b) (pendl 0 ns)).
    { rewrite app_assoc, map_look_app_l by exact Hidp. exact I5. }
    assert (HTi : Ti oc (Sect items w) = Z.max (max0 (pendl 0 ns)) (serial ns + llen w)).
    { unfold Ti, tin. cbn [rec0 ninfo]. rewrite accumulate_tinf. fold ns.
      rewrite pendl_app, serial_app. cbn [pendl]. rewrite app_nil_r. unfold serial at 2; cbn. f_equal. unfold tin; cbn. lia. }
    split; [exact Hdp|]. split; [rewrite !app_length; cbn; lia|].
    split; [intros z Hz; apply in_app_or in Hz; destruct Hz as [Hz|[<-|[]]]; [apply I3; exact Hz|unfold vw; lia]|].
    split.
    { cbn [map]. rewrite Hwid, Hpi, max0_cons, HTi. unfold vw.
      replace (llen w + (b + serial ns)) with (b + (serial ns + llen w)) by lia.
      rewrite max0_shift by lia. lia. }
    split; [reflexivity|].
    intros z Hz. rewrite app_nil_r. cbn [map]. rewrite Hwid, Hpi, max0_cons.
    apply in_app_or in Hz. destruct Hz as [Hz|[<-|[]]]; [|lia].
    specialize (I6 z Hz). rewrite map_app, max0_app, I4, I5 in I6. unfold vw. lia.
  - (* task *)
    assert (Hit : Forall (fun x => wf CTask x = true) items)
      by (destruct c; cbn in Hwf; try discriminate; apply wf_forall; exact Hwf).
    cbn [leaves] in Hnn. apply nonnegl_app in Hnn. destruct Hnn as [Hi Hw].
    apply nonnegl_flat in Hi. inversion Hw as [|? ? Hw' _]; subst. cbn [snd] in Hw'.
    destruct (dp_items oc CTask items IH Hit Hi acc ins Hins) as (vi & I1 & I2 & I3 & I4 & I5 & I6).
    rewrite (pendl_task_items oc items 0 Hit) in I5. cbn [map] in I5.
    pose proof (max0_nonneg (map (look acc) ins)) as Hb.
    pose proof (serial_rec0_nonneg oc items Hi) as Hser.
    set (b := max0 (map (look acc) ins)) in *.
    set (ri := dag_items dag items (length acc) ins) in *.
    set (ns := map (rec0 oc) items) in *.
    set (ve := llen e + (b + serial ns)).
    exists (vi ++ [ve]). cbn [dag d_rows d_outs d_pend]. fold ri.
    assert (Hdp : dp acc (d_rows ri ++ [mkRow KEnd e (d_outs ri)]) = acc ++ vi ++ [ve]).
    { rewrite dp_app, I1. cbn [dp r_leaf r_preds]. rewrite I4, <- app_assoc. reflexivity. }
    assert (Heid : look (acc ++ vi ++ [ve]) ((length acc + length (d_rows ri))%nat, EEnd) = ve).
    { rewrite <- I2, <- app_length, app_assoc. apply look_middle. }
    assert (Hpe : d_pend ri = []) by (apply dag_items_pend_nil; exact Hit).
    assert (HTi : Ti oc (Task items e) = serial ns + llen e).
    { unfold Ti, tin. cbn [rec0 ninfo]. rewrite accumulate_tinf. fold ns.
      rewrite pendl_app, serial_app. unfold ns at 1. rewrite (pendl_task_items oc items 0 Hit). cbn [pendl app].
      change (max0 []) with 0. unfold serial at 2; cbn. unfold tin; cbn. lia. }
    split; [exact Hdp|]. split; [rewrite !app_length; cbn; lia|].
    split; [intros z Hz; apply in_app_or in Hz; destruct Hz as [Hz|[<-|[]]]; [apply I3; exact Hz|unfold ve; lia]|].
    split; [cbn [map]; rewrite Heid, max0_cons, HTi; change (max0 []) with 0; unfold ve; lia|].
    split; [rewrite Hpe; reflexivity|].
    intros z Hz. rewrite Hpe, app_nil_r. cbn [map]. rewrite Heid, max0_cons.
    apply in_app_or in Hz. destruct Hz as [Hz|[<-|[]]]; [|lia].
    specialize (I6 z Hz). rewrite Hpe, app_nil_r, I4 in I6. unfold ve. lia.
Qed.

(** ** 5f. the critical path of the root is the heaviest path of the explicit DAG *)
Lemma dag_rows_leaves : forall t o ins, map (fun r => (r_kind r, r_leaf r)) (d_rows (dag t o ins)) = leaves t.
Proof.
  induction t as [l|l c IH|items w IH|items e IH] using tree_ind'; intros o ins.
  - reflexivity.
  - cbn [dag d_rows map leaves r_kind r_leaf]. rewrite IH. reflexivity.
  - cbn [dag d_rows leaves]. rewrite map_app. cbn [map r_kind r_leaf]. f_equal.
    revert o ins. induction IH as [|x r Hx _ IHr]; intros o ins; [reflexivity|].
    cbn [dag_items d_rows flat_map]. rewrite map_app, Hx, IHr. reflexivity.
  - cbn [dag d_rows leaves]. rewrite map_app. cbn [map r_kind r_leaf]. f_equal.
    revert o ins. induction IH as [|x r Hx _ IHr]; intros o ins; [reflexivity|].
    cbn [dag_items d_rows flat_map]. rewrite map_app, Hx, IHr. reflexivity.
Qed.

Lemma dag_weights_nonneg : forall t, nonneg t -> forall v, 0 <= node_weight (dag_of t) v.
Proof.
  intros t Hnn v. unfold node_weight. destruct (nth_error (dag_of t) v) as [r|] eqn:E; [|lia].
  unfold nonneg in Hnn. unfold dag_of in E. rewrite <- (dag_rows_leaves t 0%nat []) in Hnn.
  rewrite Forall_forall in Hnn. apply nth_error_In in E.
  apply (Hnn (r_kind r, r_leaf r)). apply (in_map (fun r => (r_kind r, r_leaf r))). exact E.
Qed.

Lemma max0_look_le : forall vals ps, (forall z, In z vals -> 0 <= z) -> max0 (map (look vals) ps) <= max0 vals.
Proof.
  intros vals ps Hnn. apply max0_le; [apply max0_nonneg|].
  intros x Hx. apply in_map_iff in Hx. destruct Hx as (p & <- & _). unfold look.
  destruct (Nat.lt_ge_cases (fst p) (length vals)) as [Hlt|Hge].
  - apply max0_ge, nth_In, Hlt.
  - rewrite nth_overflow by lia. apply max0_nonneg.
Qed.

Theorem rec0_tinf_longest : forall oc t, well_nested t -> nonneg t ->
  Ti oc t = longest_path (dag_of t).
Proof.
  intros oc t Hwf Hnn.
  destruct (dag_dp_ok oc t CChild Hwf Hnn [] []) as (vals & D1 & D2 & D3 & D4 & D5 & D6); [intros p []|].
  cbn [length app map] in *. change (max0 []) with 0 in *.
  unfold longest_path, dag_of. rewrite D1.
  destruct (wf_child_task _ Hwf) as (items & e & Et).
  assert (Hp : map (look vals) (d_pend (dag t 0 [])) = []) by (rewrite D5, Et; reflexivity).
  pose proof (Ti_nonneg oc t Hnn) as HT.
  apply Z.le_antisymm.
  - rewrite <- (Z.add_0_l (Ti oc t)), <- D4. apply max0_look_le. exact D3.
  - apply max0_le; [exact HT|]. intros z Hz. specialize (D6 z Hz).
    rewrite map_app, max0_app, Hp, D4 in D6. change (max0 []) with 0 in D6. lia.
Qed.

Lemma dag_of_nonempty : forall t, well_nested t -> dag_of t <> [].
Proof.
  intros t Hwf. destruct (wf_child_task _ Hwf) as (items & e & ->).
  unfold dag_of. cbn [dag d_rows]. intros H. apply app_eq_nil in H. destruct H as [_ H]. discriminate.
Qed.

Theorem root_tinf : forall oc summ, contracting summ -> forall t, well_nested t -> nonneg t ->
  i_tinf (root_info oc summ t) = longest_path (dag_of t) /\
  (forall p, is_path (dag_of t) p -> path_weight (dag_of t) p <= i_tinf (root_info oc summ t)) /\
  (exists p, is_path (dag_of t) p /\ path_weight (dag_of t) p = i_tinf (root_info oc summ t)).
Proof.
  intros oc summ Hs t Hwf Hnn.
  destruct (info_eqc_fields _ _ (root_info_rec0 oc summ Hs t)) as (_ & _ & _ & _ & _ & -> & _).
  change (i_tinf (ninfo (rec0 oc t))) with (Ti oc t). rewrite (rec0_tinf_longest oc t Hwf Hnn).
  split; [reflexivity|]. split.
  - intros p Hp. apply path_le_longest; [apply dag_of_topo|exact Hp].
  - apply longest_attained; [apply dag_of_topo|apply dag_of_nonempty; exact Hwf|apply dag_weights_nonneg; exact Hnn].
Qed.

(** * 6. The generated report *)

(** ** 6a. work line: the sum over what is materialised is the root's t_1, however contracted *)

(** an in-memory DAG whose t_1 summaries are consistent with what is below them *)
Inductive t1_ok : node -> Prop :=
| t1_leaf : forall i, t1_ok (NLeaf i)
| t1_create : forall i ci cch, t1_ok (NSub ci cch) -> t1_ok (NCreate i (NSub ci cch))
| t1_collapsed : forall i, t1_ok (NSub i [])
| t1_sub : forall i x ch, Forall t1_ok (x :: ch) -> i_t1 i = zsum (map full_t1 (x :: ch)) -> t1_ok (NSub i (x :: ch)).

Lemma stat_work_full : forall n, t1_ok n -> stat_work n = full_t1 n.
Proof.
  induction n as [i|i c IH|i ch IH] using node_ind'; intros H.
  - unfold full_t1, child_part; cbn. lia.
  - inversion H; subst. specialize (IH H1). unfold full_t1, child_part in *.
    change (stat_work (NCreate i (NSub ci cch))) with (i_t1 i + stat_work (NSub ci cch)).
    rewrite IH. cbn [ninfo]. lia.
  - inversion H as [| |i0|i0 x r Hch Hi]; subst.
    + unfold full_t1, child_part; cbn. lia.
    + change (stat_work (NSub i (x :: r))) with (zsum (map stat_work (x :: r))).
      assert (Hm : map stat_work (x :: r) = map full_t1 (x :: r)).
      { apply map_ext_Forall. eapply Forall_impl2; [|exact IH|exact Hch]. cbn. intros y A B. exact (A B). }
      rewrite Hm. transitivity (i_t1 i); [symmetry; exact Hi|].
      unfold full_t1, child_part; cbn [ninfo]. lia.
Qed.

Lemma full_t1_eqc : forall n n', node_eqc n n' -> full_t1 n = full_t1 n'.
Proof.
  intros n n' H. unfold full_t1, child_part.
  destruct n as [i|i c|i ch]; destruct n' as [i'|i' c'|i' ch']; cbn in H; try contradiction.
  - apply info_eqc_fields in H. destruct H as (_ & _ & _ & _ & H & _). cbn [ninfo]. lia.
  - apply info_eqc_fields in H. destruct H as (_ & _ & _ & _ & H & _). cbn [ninfo]. lia.
  - destruct H as [H Hc]. apply info_eqc_fields in H. destruct H as (_ & _ & _ & _ & H & _).
    apply info_eqc_fields in Hc. destruct Hc as (_ & _ & _ & _ & Hc & _). cbn [ninfo]. lia.
  - apply info_eqc_fields in H. destruct H as (_ & _ & _ & _ & H & _). cbn [ninfo]. lia.
  - apply info_eqc_fields in H. destruct H as (_ & _ & _ & _ & H & _). cbn [ninfo]. lia.
Qed.

Lemma i_t1_set_cur : forall i c, i_t1 (set_cur i c) = i_t1 i.
Proof. intros [] c; reflexivity. Qed.

Lemma contracts_t1_ok : forall n, t1_ok n -> forall n', contracts n n' -> t1_ok n'.
Proof.
  induction n as [i|i c IH|i ch IH] using node_ind'; intros Hok n' Hc.
  - inversion Hc; subst. constructor.
  - inversion Hc as [|i0 c0 c' Hcc| |]; subst. inversion Hok as [|i0 ci cch Hsub| |]; subst.
    specialize (IH Hsub c' Hcc).
    inversion Hcc; subst; constructor; exact IH.
  - inversion Hc as [| |i0 ch0 cur'|i0 ch0 ch' cur' Hf2]; subst; [constructor|].
    destruct ch' as [|x' r']; [constructor|].
    inversion Hok as [| |i0|i0 x r Hch Hi]; subst; [inversion Hf2|].
    apply t1_sub.
    + clear - IH Hch Hf2. revert IH Hch. induction Hf2 as [|a a' l l' Ha Hl IHl]; intros IH Hch; [constructor|].
      inversion IH; subst. inversion Hch; subst. constructor; [apply H1; assumption|apply IHl; assumption].
    + rewrite i_t1_set_cur, Hi. f_equal.
      clear - Hf2. induction Hf2 as [|a a' l l' Ha Hl IHl]; [reflexivity|].
      cbn [map]. rewrite IHl. f_equal. apply full_t1_eqc, contracts_node_eqc, Ha.
Qed.

Lemma app_one_cons : forall (A : Type) (l : list A) x, exists y r, l ++ [x] = y :: r.
Proof. intros A [|y l] x; cbn; eauto. Qed.

Lemma record_items_Forall : forall (P : node -> Prop) f p items k,
  Forall (fun x => forall q, P (f q x)) items -> Forall P (record_items f p k items).
Proof.
  intros P f p items; induction items as [|x r IH]; intros k H; cbn [record_items]; [constructor|].
  inversion H; subst. constructor; [apply H2|apply IH; assumption].
Qed.

Lemma t1_ok_close : forall oc k l x, Forall t1_ok l -> t1_ok x -> t1_ok (NSub (accumulate oc k (l ++ [x])) (l ++ [x])).
Proof.
  intros oc k l x Hl Hx. pose proof (accumulate_t1 oc k l x) as Ht.
  destruct (app_one_cons _ l x) as (y & r & E). rewrite E in *.
  apply t1_sub; [rewrite <- E; apply Forall_app; split; [exact Hl|constructor; [exact Hx|constructor]]|exact Ht].
Qed.

Theorem record_t1_ok : forall oc summ, contracting summ -> forall t c, wf c t = true ->
  forall p, t1_ok (record oc summ p t).
Proof.
  intros oc summ Hs t. induction t as [l|l ch IH|items w IH|items e IH] using tree_ind'; intros c Hwf p.
  - constructor.
  - destruct c; cbn in Hwf; try discriminate.
    destruct (wf_child_task _ Hwf) as (items & e & Ech).
    specialize (IH CChild Hwf (p ++ [0%nat])). cbn [record]. rewrite Ech in *. cbn [record] in *.
    match goal with |- t1_ok (NCreate _ (summ ?q ?n)) => pose proof (Hs q n) as Hc; destruct (summ q n) eqn:E end;
      inversion Hc; subst; constructor; exact IH.
  - assert (Hit : Forall (fun x => wf CSect x = true) items)
      by (destruct c; cbn in Hwf; try discriminate; apply wf_forall; exact Hwf).
    cbn [record]. eapply contracts_t1_ok; [|apply Hs].
    apply t1_ok_close; [|constructor]. apply record_items_Forall.
    eapply Forall_impl2; [|exact IH|exact Hit]. cbn. intros x A B q. exact (A _ B q).
  - assert (Hit : Forall (fun x => wf CTask x = true) items)
      by (destruct c; cbn in Hwf; try discriminate; apply wf_forall; exact Hwf).
    cbn [record]. eapply contracts_t1_ok; [|apply Hs].
    apply t1_ok_close; [|constructor]. apply record_items_Forall.
    eapply Forall_impl2; [|exact IH|exact Hit]. cbn. intros x A B q. exact (A _ B q).
Qed.

Theorem stat_work_invariant : forall oc summ, contracting summ -> forall t, well_nested t ->
  stat_work (record oc summ [] t) = work t.
Proof.
  intros oc summ Hs t Hwf.
  rewrite stat_work_full by (eapply record_t1_ok; [exact Hs|exact Hwf]).
  rewrite <- (root_work oc summ Hs t Hwf). unfold root_info.
  destruct (wf_child_task _ Hwf) as (items & e & ->). cbn [record].
  match goal with |- full_t1 (summ ?q ?n) = _ => pose proof (Hs q n) as Hc; destruct (summ q n) eqn:E end;
    inversion Hc; subst; unfold full_t1, child_part; cbn [ninfo]; lia.
Qed.

(** ** 6b. edge lines: what the report enumerates on a contracted DAG *)

Definition nonlast_ok (y : node) : Prop :=
  match y with
  | NLeaf i => i_kind i = KOther
  | NCreate _ _ => True
  | NSub i _ => i_kind i = KSection
  end.
Definition lastleaf_ok (y : node) : Prop :=
  match y with NLeaf i => i_kind i = KWait \/ i_kind i = KEnd | _ => False end.
Fixpoint shape_ok (l : list node) : Prop :=
  match l with
  | [] => False
  | [y] => lastleaf_ok y
  | y :: r => nonlast_ok y /\ shape_ok r
  end.

Inductive ed_ok (oc : bool) : node -> Prop :=
| ed_leaf : forall i, i_edges i = ec_zero -> ed_ok oc (NLeaf i)
| ed_create : forall i ci cch, i_edges i = ec_zero -> i_kind ci = KTask -> n_creates cch = 0 ->
    ed_ok oc (NSub ci cch) -> ed_ok oc (NCreate i (NSub ci cch))
| ed_collapsed : forall i, ed_ok oc (NSub i [])
| ed_sub : forall i x ch, Forall (ed_ok oc) (x :: ch) -> shape_ok (x :: ch) ->
    i_edges i = ec_sum (map (contrib oc) (x :: ch)) -> i_nchild i = n_creates (x :: ch) ->
    ed_ok oc (NSub i (x :: ch)).

Definition sub_spec (oc fe : bool) (i : info) (ch : list node) : Prop :=
  let s := stat_edges fe (NSub i ch) in
  ec_create s + n_creates ch = ec_create (i_edges i) /\
  ec_ccont s = ec_ccont (i_edges i) /\
  ec_wcont s = ec_wcont (i_edges i) /\
  (fe = true -> ec_end s = ec_end (i_edges i) +
                 match ch with [] => (match i_kind i with KSection => i_nchild i | _ => 0 end) | _ => 0 end) /\
  (oc = true -> ec_ocont s = ec_ocont (i_edges i)).

Definition node_spec (oc fe : bool) (n : node) : Prop :=
  (forall i ch, n = NSub i ch -> sub_spec oc fe i ch) /\
  (forall i' ci cch, n = NCreate i' (NSub ci cch) -> sub_spec oc fe ci cch).

Lemma stat_edges_sub_cons : forall fe i x ch,
  stat_edges fe (NSub i (x :: ch)) = stat_edges_list (stat_edges fe) (x :: ch).
Proof. reflexivity. Qed.

Lemma ec_proj_add : forall a b,
  ec_end (ec_add a b) = ec_end a + ec_end b /\ ec_create (ec_add a b) = ec_create a + ec_create b /\
  ec_ccont (ec_add a b) = ec_ccont a + ec_ccont b /\ ec_wcont (ec_add a b) = ec_wcont a + ec_wcont b /\
  ec_ocont (ec_add a b) = ec_ocont a + ec_ocont b.
Proof. intros; unfold ec_add; cbn; repeat split. Qed.

Definition list_spec (oc fe : bool) (l : list node) : Prop :=
  let s := stat_edges_list (stat_edges fe) l in
  let C := ec_sum (map (contrib oc) l) in
  ec_create s + n_creates l = ec_create C /\ ec_ccont s = ec_ccont C /\ ec_wcont s = ec_wcont C /\
  (fe = true -> ec_end s = ec_end C) /\ (oc = true -> ec_ocont s = ec_ocont C).

(** a child that has a next sibling: what the report adds for it equals what the accumulation
    added for it, up to the create edge of a create_task interval, which the report attributes
    one level up *)
Lemma nonlast_spec : forall oc fe y, ed_ok oc y -> node_spec oc fe y -> nonlast_ok y ->
  let u := ec_add (stat_edges fe y) (ec_add (cont_edge y) (sect_create_edges y)) in
  let C := contrib oc y in
  ec_create u + (if is_create y then 1 else 0) = ec_create C /\ ec_ccont u = ec_ccont C /\
  ec_wcont u = ec_wcont C /\ (fe = true -> ec_end u = ec_end C) /\ (oc = true -> ec_ocont u = ec_ocont C).
Proof.
  intros oc fe y Hok [Hs Hc] Hnl. destruct y as [i|i c|i ch].
  - (* other *)
    inversion Hok as [i0 He| | |]; subst. cbn [nonlast_ok] in Hnl.
    unfold contrib, edge_extra, cont_edge, sect_create_edges. cbn [ninfo stat_edges is_create].
    rewrite Hnl, He. destruct oc; cbn; repeat split; intros; try lia; discriminate.
  - (* create *)
    inversion Hok as [|i0 ci cch He Hk Hn Hsub| |]; subst.
    destruct (Hc i ci cch eq_refl) as (S1 & S2 & S3 & S4 & S5).
    unfold contrib, edge_extra, cont_edge, sect_create_edges. cbn [ninfo is_create].
    change (stat_edges fe (NCreate i (NSub ci cch))) with (stat_edges fe (NSub ci cch)).
    cbv zeta in S1, S2, S3, S4, S5. rewrite He, Hk in *.
    destruct (ec_proj_add (stat_edges fe (NSub ci cch)) (ec_add (mkEC 0 0 1 0 0) ec_zero)) as (P1 & P2 & P3 & P4 & P5).
    rewrite P1, P2, P3, P4, P5. unfold ec_add at 1 2 3 4 5. unfold ec_add, ec_zero.
    cbn [ec_end ec_create ec_ccont ec_wcont ec_ocont].
    repeat split; intros; try lia.
    + specialize (S4 H). destruct cch; lia.
    + specialize (S5 H). lia.
  - (* section *)
    cbn [nonlast_ok] in Hnl.
    destruct (Hs i ch eq_refl) as (S1 & S2 & S3 & S4 & S5). cbv zeta in S1, S2, S3, S4, S5.
    unfold contrib, edge_extra, cont_edge. cbn [ninfo is_create]. rewrite Hnl in *.
    destruct (ec_proj_add (stat_edges fe (NSub i ch)) (ec_add (mkEC 0 0 0 1 0) (sect_create_edges (NSub i ch)))) as (P1 & P2 & P3 & P4 & P5).
    rewrite P1, P2, P3, P4, P5.
    destruct ch as [|a b].
    + unfold sect_create_edges, ec_add, ec_zero. cbn [ec_end ec_create ec_ccont ec_wcont ec_ocont].
      change (n_creates []) with 0 in S1.
      repeat split; intros; try lia; [specialize (S4 H); lia|specialize (S5 H); lia].
    + inversion Hok as [| | |i0 x r Hch Hsh Hed Hnc]; subst.
      unfold sect_create_edges. rewrite Hnl. unfold ec_add, ec_zero. cbn [ec_end ec_create ec_ccont ec_wcont ec_ocont].
      repeat split; intros; try lia; [specialize (S4 H); lia|specialize (S5 H); lia].
Qed.

Lemma list_spec_holds : forall oc fe l, shape_ok l -> Forall (ed_ok oc) l -> Forall (node_spec oc fe) l ->
  list_spec oc fe l.
Proof.
  intros oc fe; induction l as [|y r IH]; intros Hsh Hok Hsp; [contradiction|].
  inversion Hok as [|? ? Hoy Hor]; subst. inversion Hsp as [|? ? Hsy Hsr]; subst.
  destruct r as [|z r'].
  - (* the wait / end interval *)
    cbn [shape_ok] in Hsh. destruct y as [i|i c|i ch]; try contradiction.
    inversion Hoy; subst. unfold list_spec. cbn [stat_edges_list stat_edges map ec_sum fold_right].
    unfold contrib, edge_extra. cbn [ninfo]. rewrite H0.
    change (n_creates [NLeaf i]) with 0.
    destruct Hsh as [-> | ->]; cbn; repeat split; intros; lia.
  - destruct Hsh as [Hnl Hsh].
    specialize (IH Hsh Hor Hsr). destruct IH as (I1 & I2 & I3 & I4 & I5). cbv zeta in I1, I2, I3, I4, I5.
    destruct (nonlast_spec oc fe y Hoy Hsy Hnl) as (N1 & N2 & N3 & N4 & N5). cbv zeta in N1, N2, N3, N4, N5.
    unfold list_spec. cbv zeta.
    change (stat_edges_list (stat_edges fe) (y :: z :: r')) with
      (ec_add (ec_add (stat_edges fe y) (ec_add (cont_edge y) (sect_create_edges y))) (stat_edges_list (stat_edges fe) (z :: r'))).
    change (ec_sum (map (contrib oc) (y :: z :: r'))) with (ec_add (contrib oc y) (ec_sum (map (contrib oc) (z :: r')))).
    rewrite n_creates_cons.
    match goal with |- context [ec_add ?a ?b] => destruct (ec_proj_add a b) as (P1 & P2 & P3 & P4 & P5) end.
    match goal with |- context [ec_create (ec_add (contrib oc y) ?b)] =>
      destruct (ec_proj_add (contrib oc y) b) as (Q1 & Q2 & Q3 & Q4 & Q5) end.
    rewrite P1, P2, P3, P4, P5, Q1, Q2, Q3, Q4, Q5.
    repeat split; intros; try lia.
    + specialize (I4 H). specialize (N4 H). lia.
    + specialize (I5 H). specialize (N5 H). lia.
Qed.

Theorem ed_ok_spec : forall oc fe n, ed_ok oc n -> node_spec oc fe n.
Proof.
  intros oc fe. induction n as [i|i c IH|i ch IH] using node_ind'; intros Hok.
  - split; intros; discriminate.
  - split; [intros; discriminate|]. intros i' ci cch E. inversion E; subst.
    inversion Hok; subst. destruct (IH H5) as [Hs _]. apply (Hs ci cch eq_refl).
  - split; [|intros; discriminate]. intros i0 ch0 E. inversion E; subst i0 ch0.
    inversion Hok as [| |i0|i0 x r Hch Hsh Hed Hnc]; subst.
    + unfold sub_spec. cbn [stat_edges]. change (n_creates []) with 0.
      destruct (i_kind i); try (repeat split; intros; lia).
      destruct fe; unfold ec_add; cbn [ec_end ec_create ec_ccont ec_wcont ec_ocont]; repeat split; intros; try lia; discriminate.
    + assert (Hsp : Forall (node_spec oc fe) (x :: r)).
      { eapply Forall_impl2; [|exact IH|exact Hch]. cbn. intros y A B. exact (A B). }
      pose proof (list_spec_holds oc fe (x :: r) Hsh Hch Hsp) as (L1 & L2 & L3 & L4 & L5).
      cbv zeta in L1, L2, L3, L4, L5.
      unfold sub_spec. cbv zeta. rewrite stat_edges_sub_cons, Hed.
      repeat split; intros; try lia.
      * specialize (L4 H). lia.
      * specialize (L5 H). lia.
Qed.

(** contraction keeps the edge summaries consistent *)
Lemma contrib_eqc : forall oc n n', node_eqc n n' -> contrib oc n = contrib oc n'.
Proof.
  intros oc n n' H. unfold contrib, edge_extra.
  destruct n as [i|i c|i ch]; destruct n' as [i'|i' c'|i' ch']; cbn in H; try contradiction.
  - apply info_eqc_fields in H; destruct H as (Hk & _ & _ & _ & _ & _ & _ & He & _ & Hn);
      cbn [ninfo]; rewrite Hk, He, Hn; reflexivity.
  - apply info_eqc_fields in H; destruct H as (Hk & _ & _ & _ & _ & _ & _ & He & _ & Hn);
      cbn [ninfo]; rewrite Hk, He, Hn; reflexivity.
  - destruct H as [H Hc]. apply info_eqc_fields in H. apply info_eqc_fields in Hc.
    destruct H as (_ & _ & _ & _ & _ & _ & _ & He & _). destruct Hc as (_ & _ & _ & _ & _ & _ & _ & Hce & _).
    cbn [ninfo]. rewrite He, Hce. reflexivity.
  - apply info_eqc_fields in H; destruct H as (Hk & _ & _ & _ & _ & _ & _ & He & _ & Hn);
      cbn [ninfo]; rewrite Hk, He, Hn; reflexivity.
  - apply info_eqc_fields in H; destruct H as (Hk & _ & _ & _ & _ & _ & _ & He & _ & Hn);
      cbn [ninfo]; rewrite Hk, He, Hn; reflexivity.
Qed.

Lemma contracts_is_create : forall n n', contracts n n' -> is_create n' = is_create n.
Proof. intros n n' H; destruct H; reflexivity. Qed.

Lemma contracts_n_creates : forall l l', Forall2 contracts l l' -> n_creates l' = n_creates l.
Proof.
  intros l l' H; induction H as [|a a' r r' Ha Hr IH]; [reflexivity|].
  rewrite !n_creates_cons, IH, (contracts_is_create _ _ Ha). reflexivity.
Qed.

Lemma contracts_contrib : forall oc l l', Forall2 contracts l l' -> map (contrib oc) l' = map (contrib oc) l.
Proof.
  intros oc l l' H; induction H as [|a a' r r' Ha Hr IH]; [reflexivity|].
  cbn [map]. rewrite IH. f_equal. symmetry. apply contrib_eqc, contracts_node_eqc, Ha.
Qed.

Lemma i_kind_set_cur : forall i c, i_kind (set_cur i c) = i_kind i.
Proof. intros [] c; reflexivity. Qed.
Lemma i_edges_set_cur : forall i c, i_edges (set_cur i c) = i_edges i.
Proof. intros [] c; reflexivity. Qed.
Lemma i_nchild_set_cur : forall i c, i_nchild (set_cur i c) = i_nchild i.
Proof. intros [] c; reflexivity. Qed.

Lemma contracts_nonlast : forall n n', contracts n n' -> nonlast_ok n -> nonlast_ok n'.
Proof. intros n n' H; destruct H; cbn; rewrite ?i_kind_set_cur; auto. Qed.
Lemma contracts_lastleaf : forall n n', contracts n n' -> lastleaf_ok n -> lastleaf_ok n'.
Proof. intros n n' H; destruct H; cbn; auto. Qed.

Lemma contracts_shape : forall l l', Forall2 contracts l l' -> shape_ok l -> shape_ok l'.
Proof.
  intros l l' H; induction H as [|a a' r r' Ha Hr IH]; intros Hs; [exact Hs|].
  destruct Hr as [|b b' r2 r2' Hb Hr2].
  - cbn in *. eapply contracts_lastleaf; eassumption.
  - destruct Hs as [Hn Hs]. split; [eapply contracts_nonlast; eassumption|apply IH; exact Hs].
Qed.

Lemma contracts_ed_ok : forall oc n, ed_ok oc n -> forall n', contracts n n' -> ed_ok oc n'.
Proof.
  intros oc. induction n as [i|i c IH|i ch IH] using node_ind'; intros Hok n' Hc.
  - inversion Hc; subst. exact Hok.
  - inversion Hc as [|i0 c0 c' Hcc| |]; subst. inversion Hok as [|i0 ci cch He Hk Hn Hsub| |]; subst.
    specialize (IH Hsub c' Hcc).
    inversion Hcc as [| |i0 ch0 cur'|i0 ch0 ch' cur' Hf2]; subst.
    + apply ed_create; [exact He|rewrite i_kind_set_cur; exact Hk|reflexivity|exact IH].
    + apply ed_create; [exact He|rewrite i_kind_set_cur; exact Hk| |exact IH].
      rewrite (contracts_n_creates _ _ Hf2). exact Hn.
  - inversion Hc as [| |i0 ch0 cur'|i0 ch0 ch' cur' Hf2]; subst; [constructor|].
    destruct ch' as [|x' r']; [constructor|].
    inversion Hok as [| |i0|i0 x r Hch Hsh Hed Hnc]; subst; [inversion Hf2|].
    apply ed_sub.
    + clear - IH Hch Hf2. revert IH Hch. induction Hf2 as [|a a' l l' Ha Hl IHl]; intros IH Hch; [constructor|].
      inversion IH; subst. inversion Hch; subst. constructor; [apply H1; assumption|apply IHl; assumption].
    + eapply contracts_shape; eassumption.
    + rewrite i_edges_set_cur, Hed, (contracts_contrib oc _ _ Hf2). reflexivity.
    + rewrite i_nchild_set_cur, Hnc, (contracts_n_creates _ _ Hf2). reflexivity.
Qed.

(** the recorder produces consistent edge summaries *)
Lemma record_is_create : forall oc summ, contracting summ -> forall t p,
  is_create (record oc summ p t) = is_create_t t.
Proof.
  intros oc summ Hs [l|l c|items w|items e] p; cbn [record is_create_t]; try reflexivity.
  - match goal with |- is_create (summ ?q ?n) = _ => pose proof (Hs q n) as Hc; inversion Hc; reflexivity end.
  - match goal with |- is_create (summ ?q ?n) = _ => pose proof (Hs q n) as Hc; inversion Hc; reflexivity end.
Qed.

Lemma n_creates_record_items : forall oc summ, contracting summ -> forall items p k,
  n_creates (record_items (record oc summ) p k items) = ndc items.
Proof.
  intros oc summ Hs; induction items as [|x r IH]; intros p k; [reflexivity|].
  cbn [record_items]. rewrite n_creates_cons, IH, record_is_create by exact Hs.
  unfold ndc; cbn [filter]. destruct (is_create_t x); cbn [length]; [rewrite Nat2Z.inj_succ|]; lia.
Qed.

Lemma ndc_task_items : forall items, Forall (fun x => wf CTask x = true) items -> ndc items = 0.
Proof.
  intros items H. rewrite ndc_pend. induction H as [|x r Hx _ IH]; [reflexivity|].
  cbn [map]. rewrite zsum_cons, IH. destruct (wf_task_item _ Hx) as [(l & ->)|(it & w & -> & _)]; reflexivity.
Qed.

Lemma shape_ok_app_leaf : forall l i, Forall nonlast_ok l -> (i_kind i = KWait \/ i_kind i = KEnd) ->
  shape_ok (l ++ [NLeaf i]).
Proof.
  induction l as [|y r IH]; intros i Hl Hi; [exact Hi|].
  inversion Hl; subst. cbn [app]. specialize (IH i H2 Hi).
  destruct (r ++ [NLeaf i]) eqn:E; [destruct r; discriminate|].
  split; assumption.
Qed.

Lemma record_nonlast : forall oc summ, contracting summ -> forall t c p, (c = CSect \/ c = CTask) -> wf c t = true ->
  nonlast_ok (record oc summ p t).
Proof.
  intros oc summ Hs [l|l ch|items w|items e] c p Hc Hwf; cbn [record].
  - reflexivity.
  - exact I.
  - match goal with |- nonlast_ok (summ ?q ?n) => pose proof (Hs q n) as Hct; inversion Hct; subst end;
      cbn [nonlast_ok]; rewrite i_kind_set_cur; apply accumulate_kind.
  - destruct Hc as [-> | ->]; cbn in Hwf; discriminate.
Qed.

Lemma ed_ok_close : forall oc k l i, Forall (ed_ok oc) l -> Forall nonlast_ok l ->
  i_edges i = ec_zero -> (i_kind i = KWait \/ i_kind i = KEnd) ->
  ed_ok oc (NSub (accumulate oc k (l ++ [NLeaf i])) (l ++ [NLeaf i])).
Proof.
  intros oc k l i Hl Hnl He Hk.
  assert (Hk1 : i_kind i <> KSection) by (destruct Hk as [-> | ->]; discriminate).
  assert (Hk2 : i_kind i <> KOther) by (destruct Hk as [-> | ->]; discriminate).
  pose proof (accumulate_edges oc k l i Hk1 Hk2) as Hed.
  pose proof (accumulate_nchild oc k l (NLeaf i)) as Hnc.
  pose proof (shape_ok_app_leaf l i Hnl Hk) as Hsh.
  assert (Hall : Forall (ed_ok oc) (l ++ [NLeaf i])).
  { apply Forall_app; split; [exact Hl|constructor; [constructor; exact He|constructor]]. }
  destruct (app_one_cons _ l (NLeaf i)) as (y & r & E). rewrite E in *.
  apply ed_sub; assumption.
Qed.

Theorem record_ed_ok : forall oc summ, contracting summ -> forall t c, wf c t = true ->
  forall p, ed_ok oc (record oc summ p t).
Proof.
  intros oc summ Hs t. induction t as [l|l ch IH|items w IH|items e IH] using tree_ind'; intros c Hwf p.
  - constructor. reflexivity.
  - destruct c; cbn in Hwf; try discriminate.
    destruct (wf_child_task _ Hwf) as (items & e & Ech).
    specialize (IH CChild Hwf (p ++ [0%nat])). cbn [record]. rewrite Ech in *. cbn [record] in *.
    cbn in Hwf.
    match goal with |- ed_ok oc (NCreate _ (summ ?q (NSub ?a ?chn))) =>
      pose proof (Hs q (NSub a chn)) as Hc;
      assert (Hk : i_kind a = KTask) by apply accumulate_kind;
      assert (Hn : n_creates chn = 0)
        by (rewrite n_creates_app, n_creates_record_items by exact Hs;
            rewrite (ndc_task_items items) by (apply wf_forall; exact Hwf); reflexivity);
      destruct (summ q (NSub a chn)) eqn:E
    end; inversion Hc; subst.
    + apply ed_create; [reflexivity|rewrite i_kind_set_cur; exact Hk|reflexivity|exact IH].
    + apply ed_create; [reflexivity|rewrite i_kind_set_cur; exact Hk| |exact IH].
      match goal with H : Forall2 contracts _ _ |- _ => rewrite (contracts_n_creates _ _ H) end. exact Hn.
  - assert (Hit : Forall (fun x => wf CSect x = true) items)
      by (destruct c; cbn in Hwf; try discriminate; apply wf_forall; exact Hwf).
    cbn [record]. eapply contracts_ed_ok; [|apply Hs].
    apply ed_ok_close; [| |reflexivity|left; reflexivity].
    + apply record_items_Forall. eapply Forall_impl2; [|exact IH|exact Hit]. cbn. intros x A B q. exact (A _ B q).
    + apply record_items_Forall. eapply Forall_impl; [|exact Hit]. cbn. intros x B q.
      eapply record_nonlast; [exact Hs|left; reflexivity|exact B].
  - assert (Hit : Forall (fun x => wf CTask x = true) items)
      by (destruct c; cbn in Hwf; try discriminate; apply wf_forall; exact Hwf).
    cbn [record]. eapply contracts_ed_ok; [|apply Hs].
    apply ed_ok_close; [| |reflexivity|right; reflexivity].
    + apply record_items_Forall. eapply Forall_impl2; [|exact IH|exact Hit]. cbn. intros x A B q. exact (A _ B q).
    + apply record_items_Forall. eapply Forall_impl; [|exact Hit]. cbn. intros x B q.
      eapply record_nonlast; [exact Hs|right; reflexivity|exact B].
Qed.

(** the edge lines of the report, for the root of a well-nested recording under any contraction:
    create, create_cont and wait_cont always equal the numbers of the uncontracted DAG; end needs
    the repaired report ([fe]); other_cont needs the repaired accumulation ([oc]) *)
Theorem root_stat_edges : forall oc fe summ, contracting summ -> forall t, well_nested t ->
  let s := stat_edges fe (record oc summ [] t) in
  ec_create s = count_kind KCreate t /\ ec_ccont s = count_kind KCreate t /\ ec_wcont s = count_kind KWait t /\
  (fe = true -> ec_end s = count_kind KCreate t) /\ (oc = true -> ec_ocont s = count_kind KOther t).
Proof.
  intros oc fe summ Hs t Hwf. cbv zeta.
  pose proof (record_ed_ok oc summ Hs t _ Hwf []) as Hok.
  pose proof (root_edges oc summ Hs t Hwf) as Hre. unfold root_info in Hre.
  destruct (wf_child_task _ Hwf) as (items & e & Et). subst t. cbn in Hwf.
  cbn [record] in *.
  match type of Hok with ed_ok oc (summ ?q (NSub ?a ?chn)) =>
    pose proof (Hs q (NSub a chn)) as Hc;
    assert (Hk : i_kind a = KTask) by apply accumulate_kind;
    assert (Hn : n_creates chn = 0)
      by (rewrite n_creates_app, n_creates_record_items by exact Hs;
          rewrite (ndc_task_items items) by (apply wf_forall; exact Hwf); reflexivity);
    destruct (summ q (NSub a chn)) as [i0|i0 c0|i0 ch0] eqn:E
  end; inversion Hc; subst.
  - destruct (ed_ok_spec oc fe _ Hok) as [Hsp _].
    destruct (Hsp _ _ eq_refl) as (S1 & S2 & S3 & S4 & S5). cbv zeta in S1, S2, S3, S4, S5.
    cbn [ninfo] in Hre. rewrite Hre in *. rewrite i_kind_set_cur, Hk in S4.
    change (n_creates []) with 0 in S1. cbn [ec_end ec_create ec_ccont ec_wcont ec_ocont] in *.
    repeat split; intros; try lia; [specialize (S4 H); lia|specialize (S5 H); subst oc; lia].
  - destruct (ed_ok_spec oc fe _ Hok) as [Hsp _].
    destruct (Hsp _ _ eq_refl) as (S1 & S2 & S3 & S4 & S5). cbv zeta in S1, S2, S3, S4, S5.
    cbn [ninfo] in Hre. rewrite Hre in *. rewrite i_kind_set_cur, Hk in S4.
    match goal with H : Forall2 contracts _ _ |- _ => rewrite (contracts_n_creates _ _ H), Hn in S1 end.
    cbn [ec_end ec_create ec_ccont ec_wcont ec_ocont] in *.
    repeat split; intros; try lia; [specialize (S4 H); destruct ch0; lia|specialize (S5 H); subst oc; lia].
Qed.

(** * 7. The statements of Properties_C18.v *)

Theorem contraction_invariant_fields : forall oc summ, contracting summ -> forall t,
  i_kind (root_info oc summ t) = i_kind (root_info oc summ_none t) /\
  i_start (root_info oc summ t) = i_start (root_info oc summ_none t) /\
  i_end (root_info oc summ t) = i_end (root_info oc summ_none t) /\
  i_worker (root_info oc summ t) = i_worker (root_info oc summ_none t) /\
  i_t1 (root_info oc summ t) = i_t1 (root_info oc summ_none t) /\
  i_tinf (root_info oc summ t) = i_tinf (root_info oc summ_none t) /\
  i_nodes (root_info oc summ t) = i_nodes (root_info oc summ_none t) /\
  i_edges (root_info oc summ t) = i_edges (root_info oc summ_none t) /\
  i_min (root_info oc summ t) = i_min (root_info oc summ_none t) /\
  i_nchild (root_info oc summ t) = i_nchild (root_info oc summ_none t).
Proof. intros oc summ Hs t. apply info_eqc_fields, contraction_invariant, Hs. Qed.

Theorem contraction_invariant_settings : forall oc st t,
  i_t1 (root_info oc (summ_setting st) t) = i_t1 (root_info oc summ_none t) /\
  i_tinf (root_info oc (summ_setting st) t) = i_tinf (root_info oc summ_none t) /\
  i_nodes (root_info oc (summ_setting st) t) = i_nodes (root_info oc summ_none t) /\
  i_edges (root_info oc (summ_setting st) t) = i_edges (root_info oc summ_none t).
Proof.
  intros oc st t.
  destruct (contraction_invariant_fields oc _ (contracting_setting st) t) as (_ & _ & _ & _ & H1 & H2 & H3 & H4 & _).
  repeat split; assumption.
Qed.

Theorem contraction_invariant_choices : forall oc ch t,
  i_t1 (root_info oc (summ_choice ch) t) = i_t1 (root_info oc summ_none t) /\
  i_tinf (root_info oc (summ_choice ch) t) = i_tinf (root_info oc summ_none t) /\
  i_nodes (root_info oc (summ_choice ch) t) = i_nodes (root_info oc summ_none t) /\
  i_edges (root_info oc (summ_choice ch) t) = i_edges (root_info oc summ_none t).
Proof.
  intros oc ch t.
  destruct (contraction_invariant_fields oc _ (contracting_choice ch) t) as (_ & _ & _ & _ & H1 & H2 & H3 & H4 & _).
  repeat split; assumption.
Qed.

Definition dag_edge_counts_of (t : tree) : ecounts :=
  mkEC (edge_count EEnd (dag_of t)) (edge_count ECreate (dag_of t)) (edge_count ECreateCont (dag_of t))
       (edge_count EWaitCont (dag_of t)) (edge_count EOtherCont (dag_of t)).

Theorem root_edges_dag : forall summ, contracting summ -> forall t, well_nested t ->
  i_edges (root_info true summ t) = dag_edge_counts_of t.
Proof.
  intros summ Hs t Hwf. rewrite (root_edges true summ Hs t Hwf).
  destruct (dag_edge_counts t Hwf) as (E1 & E2 & E3 & E4 & E5).
  unfold dag_edge_counts_of. rewrite E1, E2, E3, E4, E5. reflexivity.
Qed.

Theorem root_edges_dag_partial : forall summ, contracting summ -> forall t, well_nested t ->
  i_edges (root_info false summ t) =
  mkEC (edge_count EEnd (dag_of t)) (edge_count ECreate (dag_of t)) (edge_count ECreateCont (dag_of t))
       (edge_count EWaitCont (dag_of t)) 0.
Proof.
  intros summ Hs t Hwf. rewrite (root_edges false summ Hs t Hwf).
  destruct (dag_edge_counts t Hwf) as (E1 & E2 & E3 & E4 & E5).
  rewrite E1, E2, E3, E4. reflexivity.
Qed.

Theorem root_edges_dag_no_other : forall summ, contracting summ -> forall t, well_nested t ->
  count_kind KOther t = 0 -> i_edges (root_info false summ t) = dag_edge_counts_of t.
Proof.
  intros summ Hs t Hwf H0. rewrite (root_edges_dag_partial summ Hs t Hwf).
  destruct (dag_edge_counts t Hwf) as (_ & _ & _ & _ & E5). unfold dag_edge_counts_of. rewrite E5, H0. reflexivity.
Qed.

Theorem stat_edges_dag : forall summ, contracting summ -> forall t, well_nested t ->
  stat_edges true (record true summ [] t) = dag_edge_counts_of t.
Proof.
  intros summ Hs t Hwf.
  destruct (root_stat_edges true true summ Hs t Hwf) as (S1 & S2 & S3 & S4 & S5). cbv zeta in S1, S2, S3, S4, S5.
  destruct (dag_edge_counts t Hwf) as (E1 & E2 & E3 & E4 & E5).
  unfold dag_edge_counts_of. apply ec_ext; cbn [ec_end ec_create ec_ccont ec_wcont ec_ocont].
  - rewrite E1. apply S4. reflexivity.
  - rewrite E2. exact S1.
  - rewrite E3. exact S2.
  - rewrite E4. exact S3.
  - rewrite E5. apply S5. reflexivity.
Qed.

Theorem stat_edges_dag_partial : forall oc fe summ, contracting summ -> forall t, well_nested t ->
  ec_create (stat_edges fe (record oc summ [] t)) = edge_count ECreate (dag_of t) /\
  ec_ccont (stat_edges fe (record oc summ [] t)) = edge_count ECreateCont (dag_of t) /\
  ec_wcont (stat_edges fe (record oc summ [] t)) = edge_count EWaitCont (dag_of t) /\
  (fe = true -> ec_end (stat_edges fe (record oc summ [] t)) = edge_count EEnd (dag_of t)) /\
  (oc = true -> ec_ocont (stat_edges fe (record oc summ [] t)) = edge_count EOtherCont (dag_of t)).
Proof.
  intros oc fe summ Hs t Hwf.
  destruct (root_stat_edges oc fe summ Hs t Hwf) as (S1 & S2 & S3 & S4 & S5). cbv zeta in S1, S2, S3, S4, S5.
  destruct (dag_edge_counts t Hwf) as (E1 & E2 & E3 & E4 & E5).
  rewrite E1, E2, E3, E4, E5. repeat split; assumption.
Qed.

(** the witnesses of finding C18-stat-edges-lost *)
Definition lf (s e w : Z) : leaf := mkLeaf s e w.
Definition st_default : setting := mkSetting 0 (2 ^ 60) 0 100000 0.
Definition st_all : setting := mkSetting (2 ^ 62) 0 0 100000 0.
Definition w_end : tree :=
  Task [Sect [Create (lf 1 3 0) (Task [] (lf 3 6 0))] (lf 3 5 0)] (lf 6 7 1).
Definition w_other : tree :=
  Task [Sect [Create (lf 1 3 0) (Task [Other (lf 3 4 1)] (lf 4 6 1))] (lf 3 5 0)] (lf 6 7 0).

Theorem root_edges_refuted : exists t, well_nested t /\
  i_edges (root_info false summ_none t) <> dag_edge_counts_of t.
Proof. exists w_other. split; [reflexivity|]. vm_compute. discriminate. Qed.

Theorem stat_edges_refuted :
  (exists t st, well_nested t /\
     ec_end (stat_edges false (record false (summ_setting st) [] t)) <>
     ec_end (stat_edges false (record false summ_none [] t))) /\
  (exists t st, well_nested t /\
     ec_ocont (stat_edges false (record false (summ_setting st) [] t)) <>
     ec_ocont (stat_edges false (record false summ_none [] t))).
Proof.
  split.
  - exists w_end, st_default. split; [reflexivity|]. vm_compute. discriminate.
  - exists w_other, st_default. split; [reflexivity|]. vm_compute. discriminate.
Qed.
