(** Proofs about Abs(uncond) (Uncond/UncondModel.v): the inductive invariant of DESIGN.md B.6 and
    the lemmas behind the C08 theorems.  Every statement is for an arbitrary number of threads
    (the length of [thr]), an arbitrary program within the documented protocol (any sequence of
    [EAnnounce] / [ECall] events the enabledness admits) and an arbitrary schedule. *)
From Coq Require Import ZArith List Bool String Arith Lia.
From MT Require Import Lib.Interleave Uncond.UncondModel.
Import ListNotations.

(** ---- lists ---- *)
Lemma upd_nth_eq {A} (l : list A) t x y : nth_error l t = Some y -> nth_error (upd l t x) t = Some x.
Proof.
  revert t; induction l as [|a l IH]; intros [|t] H; cbn in *; try discriminate; auto.
Qed.

Lemma upd_nth_ne {A} (l : list A) t u x : u <> t -> nth_error (upd l t x) u = nth_error l u.
Proof.
  revert t u; induction l as [|a l IH]; intros [|t] [|u] H; cbn; auto; try congruence.
Qed.

Lemma upd_nth_inv {A} (l : list A) t x u z :
  nth_error (upd l t x) u = Some z -> (u = t /\ z = x) \/ (u <> t /\ nth_error l u = Some z).
Proof.
  revert t u; induction l as [|a l IH]; intros [|t] [|u] H; cbn in *; try discriminate.
  - left; split; congruence.
  - right; split; auto.
  - right; split; auto.
  - apply IH in H. destruct H as [[-> ->]|[Hn H]]; [left|right]; auto.
Qed.

Lemma nth_repeat {A} (a x : A) n t : nth_error (repeat a n) t = Some x -> x = a.
Proof.
  revert t; induction n as [|n IH]; intros [|t] H; cbn in *; try discriminate; [congruence | eauto].
Qed.

(** ---- the system ---- *)
Definition thr_at (s : state) (t : nat) (x : thread) : Prop := nth_error (thr s) t = Some x.

Definition is_init (s : state) : Prop := exists n, s = init_state n.

Definition reach : state -> Prop := reachable is_init step.

(** ---- the invariant (DESIGN.md B.6, with the bookkeeping that makes it inductive) ---- *)
Record Inv (s : state) : Prop := {
  i_cnt : pushes s <= waits s /\ waits s <= ann s /\ ann s <= pushes s + 1 /\
          pushes s <= sigs s /\ sigs s <= ann s;
  i_susp : forall t x, thr_at s t x -> main x = Susp -> waits s = pushes s + 1;
  i_susp_u : forall t1 x1 t2 x2, thr_at s t1 x1 -> thr_at s t2 x2 ->
             main x1 = Susp -> main x2 = Susp -> t1 = t2;
  i_susp_e : waits s = pushes s + 1 -> exists t x, thr_at s t x /\ main x = Susp;
  i_sig : forall t x, thr_at s t x -> in_signal x = true -> sigs s = pushes s + 1;
  i_sig_u : forall t1 x1 t2 x2, thr_at s t1 x1 -> thr_at s t2 x2 ->
            in_signal x1 = true -> in_signal x2 = true -> t1 = t2;
  i_sig_e : sigs s = pushes s + 1 -> exists t x, thr_at s t x /\ in_signal x = true;
  i_cb : forall t x, thr_at s t x -> cb x = CbPublish -> main x = Susp;
  i_th : forall w, th s = Some w -> exists x, thr_at s w x /\ main x = Susp /\ cb x = CbNone;
  i_clear : forall t x y, thr_at s t x -> main x = SigClear y -> th s = Some y;
  i_push : forall t x y, thr_at s t x -> main x = SigPush y ->
           th s = None /\ exists z, thr_at s y z /\ main z = Susp /\ cb z = CbNone;
  i_gw : forall t x, thr_at s t x -> nwait x = nres x + b2n (suspended x);
  i_gs : forall t x, thr_at s t x -> nsig x = npush x + b2n (in_signal x)
}.

Arguments i_cnt {s}. Arguments i_susp {s}. Arguments i_susp_u {s}. Arguments i_susp_e {s}.
Arguments i_sig {s}. Arguments i_sig_u {s}. Arguments i_sig_e {s}. Arguments i_cb {s}. Arguments i_th {s}.
Arguments i_clear {s}. Arguments i_push {s}. Arguments i_gw {s}. Arguments i_gs {s}.

Lemma inv_init n : Inv (init_state n).
Proof.
  constructor; unfold thr_at, init_state; cbn [th thr ann waits sigs pushes].
  - lia.
  - intros t x H Hm. apply nth_repeat in H. subst x. discriminate.
  - intros t1 x1 t2 x2 H1 _ Hm. apply nth_repeat in H1. subst x1. discriminate.
  - lia.
  - intros t x H Hm. apply nth_repeat in H. subst x. discriminate.
  - intros t1 x1 t2 x2 H1 _ Hm. apply nth_repeat in H1. subst x1. discriminate.
  - lia.
  - intros t x H Hm. apply nth_repeat in H. subst x. discriminate.
  - discriminate.
  - intros t x y H Hm. apply nth_repeat in H. subst x. discriminate.
  - intros t x y H Hm. apply nth_repeat in H. subst x. discriminate.
  - intros t x H. apply nth_repeat in H. subst x. reflexivity.
  - intros t x H. apply nth_repeat in H. subst x. reflexivity.
Qed.

(** ---- preservation, one lemma per kind of step ---- *)
Tactic Notation "inv_upd" hyp(H) "as" ident(N) :=
  apply upd_nth_inv in H; destruct H as [[? ?]|[N H]]; subst.

Ltac kill_main Hm := unfold in_signal, suspended in *; cbn [main cb nwait nres nsig npush] in *;
                     try rewrite Hm in *; try discriminate; try congruence.

Lemma inv_announce s : Inv s -> ann s = pushes s ->
  Inv {| th := th s; thr := thr s; ann := S (ann s); waits := waits s; sigs := sigs s; pushes := pushes s |}.
Proof.
  intros [Ic Is Isu Ise Ig Igu Ige Icb Ith Icl Ipu Igw Igs] E.
  constructor; unfold thr_at in *; cbn [th thr ann waits sigs pushes]; eauto.
  lia.
Qed.

Lemma inv_call_wait s t me : Inv s -> thr_at s t me -> main me = Idle -> cb me = CbNone -> waits s < ann s ->
  Inv {| th := th s;
         thr := upd (thr s) t {| main := Susp; cb := CbPublish; nwait := S (nwait me); nres := nres me;
                                 nsig := nsig me; npush := npush me |};
         ann := ann s; waits := S (waits s); sigs := sigs s; pushes := pushes s |}.
Proof.
  intros [Ic Is Isu Ise Ig Igu Ige Icb Ith Icl Ipu Igw Igs] Ht Hm Hc Hlt.
  unfold thr_at in *.
  assert (Hw : waits s = pushes s) by lia.
  assert (NoS : forall u z, nth_error (thr s) u = Some z -> main z = Susp -> False).
  { intros u z H Hz. specialize (Is _ _ H Hz). lia. }
  assert (Hth : th s = None).
  { destruct (th s) as [w|] eqn:E; auto. destruct (Ith w eq_refl) as (x & H & Hx & _). exfalso; eauto. }
  constructor; unfold thr_at in *; cbn [th thr ann waits sigs pushes].
  - lia.
  - intros; lia.
  - intros u1 z1 u2 z2 H1 H2 Hz1 Hz2. inv_upd H1 as N1; inv_upd H2 as N2; auto; exfalso; eauto.
  - intros _. exists t. eexists. split; [eapply upd_nth_eq; eauto | reflexivity].
  - intros u z H Hz. inv_upd H as N; [discriminate | eauto].
  - intros u1 z1 u2 z2 H1 H2 Hz1 Hz2. inv_upd H1 as N1; inv_upd H2 as N2; try discriminate; eauto.
  - intros E. destruct (Ige E) as (u & z & H & Hz). exists u, z. split; auto.
    rewrite upd_nth_ne; auto. intros ->. rewrite Ht in H. injection H as <-. kill_main Hm.
  - intros u z H Hz. inv_upd H as N; [reflexivity | eauto].
  - rewrite Hth. discriminate.
  - intros u z y H Hz. inv_upd H as N; [discriminate | eauto].
  - intros u z y H Hz. inv_upd H as N; [discriminate|]. destruct (Ipu _ _ _ H Hz) as (_ & z' & H' & Hz' & _).
    exfalso; eauto.
  - intros u z H. inv_upd H as N; [|eauto]. specialize (Igw _ _ Ht). kill_main Hm. cbn in *. lia.
  - intros u z H. inv_upd H as N; [|eauto]. specialize (Igs _ _ Ht). kill_main Hm.
Qed.

Lemma inv_call_signal s t me : Inv s -> thr_at s t me -> main me = Idle -> cb me = CbNone -> sigs s < ann s ->
  Inv {| th := th s;
         thr := upd (thr s) t {| main := SigRead; cb := CbNone; nwait := nwait me; nres := nres me;
                                 nsig := S (nsig me); npush := npush me |};
         ann := ann s; waits := waits s; sigs := S (sigs s); pushes := pushes s |}.
Proof.
  intros [Ic Is Isu Ise Ig Igu Ige Icb Ith Icl Ipu Igw Igs] Ht Hm Hc Hlt.
  unfold thr_at in *.
  assert (Hw : sigs s = pushes s) by lia.
  assert (NoG : forall u z, nth_error (thr s) u = Some z -> in_signal z = true -> False).
  { intros u z H Hz. specialize (Ig _ _ H Hz). lia. }
  assert (NotMe : forall u z, nth_error (thr s) u = Some z -> main z = Susp -> u <> t).
  { intros u z H Hz ->. rewrite Ht in H. injection H as <-. congruence. }
  constructor; unfold thr_at in *; cbn [th thr ann waits sigs pushes].
  - lia.
  - intros u z H Hz. inv_upd H as N; [discriminate | eauto].
  - intros u1 z1 u2 z2 H1 H2 Hz1 Hz2. inv_upd H1 as N1; inv_upd H2 as N2; try discriminate; eauto.
  - intros E. destruct (Ise E) as (u & z & H & Hz). exists u, z. split; auto.
    rewrite upd_nth_ne; eauto.
  - intros; lia.
  - intros u1 z1 u2 z2 H1 H2 Hz1 Hz2. inv_upd H1 as N1; inv_upd H2 as N2; auto; exfalso; eauto.
  - intros _. exists t. eexists. split; [eapply upd_nth_eq; eauto | reflexivity].
  - intros u z H Hz. inv_upd H as N; [discriminate | eauto].
  - intros w E. destruct (Ith w E) as (x & H & Hx & Hcx). exists x. split; auto.
    rewrite upd_nth_ne; eauto.
  - intros u z y H Hz. inv_upd H as N; [discriminate | eauto].
  - intros u z y H Hz. inv_upd H as N; [discriminate|]. destruct (Ipu _ _ _ H Hz) as (E & z' & H' & Hz' & Hc').
    split; auto. exists z'. split; auto. rewrite upd_nth_ne; eauto.
  - intros u z H. inv_upd H as N; [|eauto]. specialize (Igw _ _ Ht). kill_main Hm.
  - intros u z H. inv_upd H as N; [|eauto]. specialize (Igs _ _ Ht). kill_main Hm. cbn in *. lia.
Qed.

(** a step that replaces the main pc of [t] by another pc of the same class (signalling or not,
    never suspended) and leaves everything else alone *)
Lemma inv_tick_read s t me x : Inv s -> thr_at s t me -> main me = SigRead -> th s = Some x ->
  Inv (set_thread s t (set_main me (SigClear x))).
Proof.
  intros [Ic Is Isu Ise Ig Igu Ige Icb Ith Icl Ipu Igw Igs] Ht Hm Hth.
  unfold thr_at in *.
  assert (Gme : in_signal me = true) by (unfold in_signal; rewrite Hm; reflexivity).
  assert (NotMe : forall u z, nth_error (thr s) u = Some z -> main z = Susp -> u <> t).
  { intros u z H Hz ->. rewrite Ht in H. injection H as <-. congruence. }
  constructor; unfold thr_at, set_thread, set_main in *; cbn [th thr ann waits sigs pushes].
  - lia.
  - intros u z H Hz. inv_upd H as N; [discriminate | eauto].
  - intros u1 z1 u2 z2 H1 H2 Hz1 Hz2. inv_upd H1 as N1; inv_upd H2 as N2; try discriminate; eauto.
  - intros E. destruct (Ise E) as (u & z & H & Hz). exists u, z. split; auto. rewrite upd_nth_ne; eauto.
  - intros u z H Hz. inv_upd H as N; eauto.
  - intros u1 z1 u2 z2 H1 H2 Hz1 Hz2. inv_upd H1 as N1; inv_upd H2 as N2; auto.
    + exfalso. apply N2. eapply (Igu _ _ _ _ H2 Ht); eauto.
    + exfalso. apply N1. eapply (Igu _ _ _ _ H1 Ht); eauto.
    + eauto.
  - intros _. exists t. eexists. split; [eapply upd_nth_eq; eauto | reflexivity].
  - intros u z H Hz. inv_upd H as N; [|eauto]. cbn in Hz. specialize (Icb _ _ Ht Hz). congruence.
  - intros w E. destruct (Ith w E) as (x' & H & Hx & Hcx). exists x'. split; auto. rewrite upd_nth_ne; eauto.
  - intros u z y H Hz. inv_upd H as N; [|eauto]. cbn in Hz. congruence.
  - intros u z y H Hz. inv_upd H as N; [discriminate|]. destruct (Ipu _ _ _ H Hz) as (E & z' & H' & Hz' & Hc').
    split; auto. exists z'. split; auto. rewrite upd_nth_ne; eauto.
  - intros u z H. inv_upd H as N; [|eauto]. specialize (Igw _ _ Ht). kill_main Hm.
  - intros u z H. inv_upd H as N; [|eauto]. specialize (Igs _ _ Ht). kill_main Hm.
Qed.

Lemma inv_tick_clear s t me x : Inv s -> thr_at s t me -> main me = SigClear x ->
  Inv (set_thread (set_th s None) t (set_main me (SigPush x))).
Proof.
  intros [Ic Is Isu Ise Ig Igu Ige Icb Ith Icl Ipu Igw Igs] Ht Hm.
  unfold thr_at in *.
  assert (Gme : in_signal me = true) by (unfold in_signal; rewrite Hm; reflexivity).
  assert (NotMe : forall u z, nth_error (thr s) u = Some z -> main z = Susp -> u <> t).
  { intros u z H Hz ->. rewrite Ht in H. injection H as <-. congruence. }
  assert (OnlyMe : forall u z, nth_error (thr s) u = Some z -> in_signal z = true -> u = t).
  { intros u z H Hz. eapply Igu; eauto. }
  pose proof (Icl _ _ _ Ht Hm) as Hth.
  destruct (Ith _ Hth) as (tx & Hx & Hxm & Hxc).
  constructor; unfold thr_at, set_thread, set_th, set_main in *; cbn [th thr ann waits sigs pushes].
  - lia.
  - intros u z H Hz. inv_upd H as N; [discriminate | eauto].
  - intros u1 z1 u2 z2 H1 H2 Hz1 Hz2. inv_upd H1 as N1; inv_upd H2 as N2; try discriminate; eauto.
  - intros E. destruct (Ise E) as (u & z & H & Hz). exists u, z. split; auto. rewrite upd_nth_ne; eauto.
  - intros u z H Hz. inv_upd H as N; eauto.
  - intros u1 z1 u2 z2 H1 H2 Hz1 Hz2. inv_upd H1 as N1; inv_upd H2 as N2; auto.
    + exfalso. apply N2. eauto.
    + exfalso. apply N1. eauto.
    + eauto.
  - intros _. exists t. eexists. split; [eapply upd_nth_eq; eauto | reflexivity].
  - intros u z H Hz. inv_upd H as N; [|eauto]. cbn in Hz. specialize (Icb _ _ Ht Hz). congruence.
  - discriminate.
  - intros u z y H Hz. inv_upd H as N; [discriminate|]. exfalso. apply N. eapply OnlyMe; eauto.
    unfold in_signal. rewrite Hz. reflexivity.
  - intros u z y H Hz. inv_upd H as N.
    + cbn in Hz. injection Hz as <-. split; auto. exists tx. split; auto. rewrite upd_nth_ne; eauto.
    + exfalso. apply N. eapply OnlyMe; eauto. unfold in_signal. rewrite Hz. reflexivity.
  - intros u z H. inv_upd H as N; [|eauto]. specialize (Igw _ _ Ht). kill_main Hm.
  - intros u z H. inv_upd H as N; [|eauto]. specialize (Igs _ _ Ht). kill_main Hm.
Qed.

Lemma inv_tick_push s t me x tx : Inv s -> thr_at s t me -> main me = SigPush x ->
  thr_at s x tx -> main tx = Susp -> cb tx = CbNone ->
  Inv {| th := th s;
         thr := upd (upd (thr s) x {| main := WaitDone; cb := CbNone; nwait := nwait tx; nres := S (nres tx);
                                      nsig := nsig tx; npush := npush tx |})
                    t {| main := SigDone; cb := cb me; nwait := nwait me; nres := nres me;
                         nsig := nsig me; npush := S (npush me) |};
         ann := ann s; waits := waits s; sigs := sigs s; pushes := S (pushes s) |}.
Proof.
  intros [Ic Is Isu Ise Ig Igu Ige Icb Ith Icl Ipu Igw Igs] Ht Hm Hx Hxm Hxc.
  unfold thr_at in *.
  assert (Gme : in_signal me = true) by (unfold in_signal; rewrite Hm; reflexivity).
  pose proof (Is _ _ Hx Hxm) as Hw.
  pose proof (Ig _ _ Ht Gme) as Hs.
  destruct (Ipu _ _ _ Ht Hm) as (Hth & _).
  set (l' := upd (upd (thr s) x _) t _).
  assert (NoS : forall u z, nth_error l' u = Some z -> main z = Susp -> False).
  { subst l'. intros u z H Hz. inv_upd H as N; [discriminate|]. inv_upd H as N'; [discriminate|].
    apply N'. eapply Isu; eauto. }
  assert (NoG : forall u z, nth_error l' u = Some z -> in_signal z = true -> False).
  { subst l'. intros u z H Hz. inv_upd H as N; [discriminate|]. inv_upd H as N'; [discriminate|].
    apply N. eapply Igu; eauto. }
  constructor; unfold thr_at in *; cbn [th thr ann waits sigs pushes].
  - lia.
  - intros u z H Hz. exfalso; eauto.
  - intros u1 z1 u2 z2 H1 H2 Hz1 Hz2. exfalso; eauto.
  - intros E. lia.
  - intros u z H Hz. exfalso; eauto.
  - intros u1 z1 u2 z2 H1 H2 Hz1 Hz2. exfalso; eauto.
  - intros E. lia.
  - subst l'. intros u z H Hz. inv_upd H as N.
    + cbn in Hz. specialize (Icb _ _ Ht Hz). congruence.
    + inv_upd H as N'; [discriminate | eauto].
  - rewrite Hth. discriminate.
  - intros u z y H Hz. exfalso. eapply NoG; eauto. unfold in_signal. rewrite Hz. reflexivity.
  - intros u z y H Hz. exfalso. eapply NoG; eauto. unfold in_signal. rewrite Hz. reflexivity.
  - subst l'. intros u z H. inv_upd H as N.
    + specialize (Igw _ _ Ht). kill_main Hm.
    + inv_upd H as N'; [|eauto]. specialize (Igw _ _ Hx). kill_main Hxm. cbn in *. lia.
  - subst l'. intros u z H. inv_upd H as N.
    + specialize (Igs _ _ Ht). kill_main Hm. cbn in *. lia.
    + inv_upd H as N'; [|eauto]. specialize (Igs _ _ Hx). kill_main Hxm.
Qed.

Lemma inv_cbtick s t me : Inv s -> thr_at s t me -> cb me = CbPublish ->
  Inv (set_thread (set_th s (Some t)) t (set_cb me CbNone)).
Proof.
  intros [Ic Is Isu Ise Ig Igu Ige Icb Ith Icl Ipu Igw Igs] Ht Hc.
  unfold thr_at in *.
  pose proof (Icb _ _ Ht Hc) as Hm.
  assert (OnlyMe : forall u z, nth_error (thr s) u = Some z -> main z = Susp -> u = t).
  { intros u z H Hz. eapply Isu; eauto. }
  assert (NotMeG : forall u z, nth_error (thr s) u = Some z -> in_signal z = true -> u <> t).
  { intros u z H Hz ->. rewrite Ht in H. injection H as <-. kill_main Hm. }
  constructor; unfold thr_at, set_thread, set_th, set_cb in *; cbn [th thr ann waits sigs pushes].
  - lia.
  - intros u z H Hz. inv_upd H as N; eauto.
  - intros u1 z1 u2 z2 H1 H2 Hz1 Hz2. inv_upd H1 as N1; inv_upd H2 as N2; auto.
    + exfalso. apply N2. eauto.
    + exfalso. apply N1. eauto.
    + eauto.
  - intros _. exists t. eexists. split; [eapply upd_nth_eq; eauto | exact Hm].
  - intros u z H Hz. inv_upd H as N; [|eauto]. kill_main Hm.
  - intros u1 z1 u2 z2 H1 H2 Hz1 Hz2. inv_upd H1 as N1; inv_upd H2 as N2; try (kill_main Hm; fail); eauto.
  - intros E. destruct (Ige E) as (u & z & H & Hz). exists u, z. split; auto. rewrite upd_nth_ne; eauto.
  - intros u z H Hz. inv_upd H as N; [discriminate | eauto].
  - intros w E. injection E as <-. eexists. split; [eapply upd_nth_eq; eauto|]. split; [exact Hm | reflexivity].
  - intros u z y H Hz. inv_upd H as N; [cbn in Hz; congruence|]. exfalso.
    pose proof (Icl _ _ _ H Hz) as E. destruct (Ith _ E) as (z' & H' & Hz' & Hc').
    assert (y = t) by eauto. subst y. rewrite Ht in H'. injection H' as <-. congruence.
  - intros u z y H Hz. inv_upd H as N; [cbn in Hz; congruence|]. exfalso.
    destruct (Ipu _ _ _ H Hz) as (_ & z' & H' & Hz' & Hc').
    assert (y = t) by eauto. subst y. rewrite Ht in H'. injection H' as <-. congruence.
  - intros u z H. inv_upd H as N; [|eauto]. specialize (Igw _ _ Ht). kill_main Hm.
  - intros u z H. inv_upd H as N; [|eauto]. specialize (Igs _ _ Ht). kill_main Hm.
Qed.

Lemma inv_ret s t me : Inv s -> thr_at s t me -> (main me = WaitDone \/ main me = SigDone) ->
  Inv (set_thread s t (set_main me Idle)).
Proof.
  intros [Ic Is Isu Ise Ig Igu Ige Icb Ith Icl Ipu Igw Igs] Ht Hm.
  unfold thr_at in *.
  assert (NotMe : forall u z, nth_error (thr s) u = Some z -> main z = Susp -> u <> t).
  { intros u z H Hz ->. rewrite Ht in H. injection H as <-. destruct Hm; congruence. }
  assert (NotMeG : forall u z, nth_error (thr s) u = Some z -> in_signal z = true -> u <> t).
  { intros u z H Hz ->. rewrite Ht in H. injection H as <-. destruct Hm as [Hm|Hm]; kill_main Hm. }
  constructor; unfold thr_at, set_thread, set_main in *; cbn [th thr ann waits sigs pushes].
  - lia.
  - intros u z H Hz. inv_upd H as N; [discriminate | eauto].
  - intros u1 z1 u2 z2 H1 H2 Hz1 Hz2. inv_upd H1 as N1; inv_upd H2 as N2; try discriminate; eauto.
  - intros E. destruct (Ise E) as (u & z & H & Hz). exists u, z. split; auto. rewrite upd_nth_ne; eauto.
  - intros u z H Hz. inv_upd H as N; [discriminate | eauto].
  - intros u1 z1 u2 z2 H1 H2 Hz1 Hz2. inv_upd H1 as N1; inv_upd H2 as N2; try discriminate; eauto.
  - intros E. destruct (Ige E) as (u & z & H & Hz). exists u, z. split; auto. rewrite upd_nth_ne; eauto.
  - intros u z H Hz. inv_upd H as N; [|eauto]. cbn in Hz. specialize (Icb _ _ Ht Hz). destruct Hm; congruence.
  - intros w E. destruct (Ith w E) as (x' & H & Hx & Hcx). exists x'. split; auto. rewrite upd_nth_ne; eauto.
  - intros u z y H Hz. inv_upd H as N; [discriminate | eauto].
  - intros u z y H Hz. inv_upd H as N; [discriminate|]. destruct (Ipu _ _ _ H Hz) as (E & z' & H' & Hz' & Hc').
    split; auto. exists z'. split; auto. rewrite upd_nth_ne; eauto.
  - intros u z H. inv_upd H as N; [|eauto]. specialize (Igw _ _ Ht). destruct Hm as [Hm|Hm]; kill_main Hm.
  - intros u z H. inv_upd H as N; [|eauto]. specialize (Igs _ _ Ht). destruct Hm as [Hm|Hm]; kill_main Hm.
Qed.

(** ---- what a step is (inversion of [step]) ---- *)
Inductive step_kind (s : state) (t : nat) : ev -> state -> Prop :=
| SK_announce me : thr_at s t me -> ann s = pushes s ->
    step_kind s t EAnnounce
      {| th := th s; thr := thr s; ann := S (ann s); waits := waits s; sigs := sigs s; pushes := pushes s |}
| SK_wait me : thr_at s t me -> main me = Idle -> cb me = CbNone -> waits s < ann s ->
    step_kind s t (ECall Wait)
      {| th := th s;
         thr := upd (thr s) t {| main := Susp; cb := CbPublish; nwait := S (nwait me); nres := nres me;
                                 nsig := nsig me; npush := npush me |};
         ann := ann s; waits := S (waits s); sigs := sigs s; pushes := pushes s |}
| SK_signal me : thr_at s t me -> main me = Idle -> cb me = CbNone -> sigs s < ann s ->
    step_kind s t (ECall Signal)
      {| th := th s;
         thr := upd (thr s) t {| main := SigRead; cb := CbNone; nwait := nwait me; nres := nres me;
                                 nsig := S (nsig me); npush := npush me |};
         ann := ann s; waits := waits s; sigs := S (sigs s); pushes := pushes s |}
| SK_spin me : thr_at s t me -> main me = SigRead -> th s = None -> step_kind s t ETick s
| SK_read me x : thr_at s t me -> main me = SigRead -> th s = Some x ->
    step_kind s t ETick (set_thread s t (set_main me (SigClear x)))
| SK_clear me x : thr_at s t me -> main me = SigClear x ->
    step_kind s t ETick (set_thread (set_th s None) t (set_main me (SigPush x)))
| SK_push me x tx : thr_at s t me -> main me = SigPush x -> thr_at s x tx -> main tx = Susp -> cb tx = CbNone ->
    x <> t ->
    step_kind s t ETick
      {| th := th s;
         thr := upd (upd (thr s) x {| main := WaitDone; cb := CbNone; nwait := nwait tx; nres := S (nres tx);
                                      nsig := nsig tx; npush := npush tx |})
                    t {| main := SigDone; cb := cb me; nwait := nwait me; nres := nres me;
                         nsig := nsig me; npush := S (npush me) |};
         ann := ann s; waits := waits s; sigs := sigs s; pushes := S (pushes s) |}
| SK_publish me : thr_at s t me -> cb me = CbPublish ->
    step_kind s t ECbTick (set_thread (set_th s (Some t)) t (set_cb me CbNone))
| SK_ret me : thr_at s t me -> (main me = WaitDone \/ main me = SigDone) ->
    step_kind s t (ERet 0%Z) (set_thread s t (set_main me Idle)).

Lemma step_inv s t e s' : step s (t, e) = Some s' -> step_kind s t e s'.
Proof.
  unfold step. destruct e as [|o| | |v].
  - unfold announce, get_thread. destruct (nth_error (thr s) t) as [me|] eqn:Ht; [|discriminate].
    destruct (Nat.eqb (ann s) (pushes s)) eqn:E; [|discriminate]. intros H. injection H as <-.
    apply Nat.eqb_eq in E. econstructor; eauto.
  - unfold call, get_thread. destruct (nth_error (thr s) t) as [me|] eqn:Ht; [|discriminate].
    destruct (main me) eqn:Hm; try discriminate. destruct (cb me) eqn:Hc; try discriminate.
    destruct o.
    + destruct (Nat.ltb (waits s) (ann s)) eqn:E; [|discriminate]. intros H. injection H as <-.
      apply Nat.ltb_lt in E. econstructor; eauto.
    + destruct (Nat.ltb (sigs s) (ann s)) eqn:E; [|discriminate]. intros H. injection H as <-.
      apply Nat.ltb_lt in E. econstructor; eauto.
  - unfold tick, get_thread. destruct (nth_error (thr s) t) as [me|] eqn:Ht; [|discriminate].
    destruct (main me) eqn:Hm; try discriminate.
    + destruct (th s) as [x|] eqn:Hth; intros H; injection H as <-.
      * eapply SK_read; eauto.
      * eapply SK_spin; eauto.
    + intros H. injection H as <-. eapply SK_clear; eauto.
    + unfold wake, get_thread. destruct (nth_error (thr s) x) as [tx|] eqn:Hx; [|discriminate].
      destruct (main tx) eqn:Hxm; try discriminate. destruct (cb tx) eqn:Hxc; try discriminate.
      assert (Hne : x <> t).
      { intros ->. rewrite Ht in Hx. injection Hx as <-. congruence. }
      unfold set_thread. cbn [thr th ann waits sigs pushes].
      rewrite upd_nth_ne by auto. rewrite Ht. intros H. injection H as <-.
      eapply SK_push; eauto.
  - unfold cbtick, get_thread. destruct (nth_error (thr s) t) as [me|] eqn:Ht; [|discriminate].
    destruct (cb me) eqn:Hc; try discriminate. intros H. injection H as <-. econstructor; eauto.
  - unfold ret, ret_ok, get_thread. destruct (nth_error (thr s) t) as [me|] eqn:Ht; [|discriminate].
    destruct (main me) eqn:Hm; try discriminate;
      (destruct (Z.eqb v 0) eqn:E; [|discriminate]; apply Z.eqb_eq in E; subst v;
       intros H; injection H as <-; econstructor; eauto).
Qed.

Lemma step_kind_sound s t e s' : step_kind s t e s' -> step s (t, e) = Some s'.
Proof.
  intros K. destruct K; unfold step, thr_at in *.
  - unfold announce, get_thread. rewrite H. apply Nat.eqb_eq in H0. rewrite H0. reflexivity.
  - unfold call, get_thread. rewrite H, H0, H1. apply Nat.ltb_lt in H2. rewrite H2. reflexivity.
  - unfold call, get_thread. rewrite H, H0, H1. apply Nat.ltb_lt in H2. rewrite H2. reflexivity.
  - unfold tick, get_thread. rewrite H, H0, H1. reflexivity.
  - unfold tick, get_thread. rewrite H, H0, H1. reflexivity.
  - unfold tick, get_thread. rewrite H, H0. reflexivity.
  - unfold tick, wake, get_thread. rewrite H, H0, H1, H2, H3. unfold set_thread. cbn [thr th ann waits sigs pushes].
    rewrite upd_nth_ne by auto. rewrite H. reflexivity.
  - unfold cbtick, get_thread. rewrite H, H0. reflexivity.
  - unfold ret, ret_ok, get_thread. rewrite H. destruct H0 as [E|E]; rewrite E; reflexivity.
Qed.

Lemma inv_step s a s' : Inv s -> step s a = Some s' -> Inv s'.
Proof.
  destruct a as [t e]. intros I H. apply step_inv in H.
  destruct H.
  - apply inv_announce; auto.
  - eapply inv_call_wait; eauto.
  - eapply inv_call_signal; eauto.
  - exact I.
  - eapply inv_tick_read; eauto.
  - eapply inv_tick_clear; eauto.
  - eapply inv_tick_push; eauto.
  - eapply inv_cbtick; eauto.
  - eapply inv_ret; eauto.
Qed.

Theorem reach_inv s : reach s -> Inv s.
Proof.
  apply invariant_rule.
  - intros s0 [n ->]. apply inv_init.
  - intros s0 a s1. apply inv_step.
Qed.

Corollary run_inv n sched : Inv (run step sched (init_state n)).
Proof.
  apply reach_inv. apply run_reachable. apply reach_init. exists n. reflexivity.
Qed.

(** ---- the lemmas behind the C08 theorems ---- *)

(** every wait call of every thread is answered by exactly one resumption: a thread that is not
    suspended has been resumed as often as it has called wait, a suspended one once less; there is
    at most one outstanding wait at any time and it belongs to the rendezvous announced last *)
Lemma one_resume s : reach s ->
  (pushes s <= waits s /\ waits s <= ann s /\ ann s <= pushes s + 1) /\
  (forall t x, thr_at s t x -> nwait x = nres x + b2n (suspended x)) /\
  (forall t1 x1 t2 x2, thr_at s t1 x1 -> thr_at s t2 x2 ->
     suspended x1 = true -> suspended x2 = true -> t1 = t2) /\
  (waits s = pushes s + 1 <-> exists t x, thr_at s t x /\ suspended x = true).
Proof.
  intros R. apply reach_inv in R. destruct R as [Ic Is Isu Ise Ig Igu Ige Icb Ith Icl Ipu Igw Igs].
  split; [lia|]. split; [exact Igw|]. split.
  - intros t1 x1 t2 x2 H1 H2 S1 S2. eapply Isu; eauto.
    + unfold suspended in S1. destruct (main x1); try discriminate; reflexivity.
    + unfold suspended in S2. destruct (main x2); try discriminate; reflexivity.
  - split.
    + intros E. destruct (Ise E) as (t & x & H & Hm). exists t, x. split; auto. unfold suspended. rewrite Hm. reflexivity.
    + intros (t & x & H & Hm). eapply Is; eauto. unfold suspended in Hm. destruct (main x); try discriminate; reflexivity.
Qed.

Lemma published_saved s : reach s ->
  forall w, th s = Some w -> exists x, thr_at s w x /\ main x = Susp /\ cb x = CbNone.
Proof. intros R. apply reach_inv in R. exact (i_th R). Qed.

(** the slot is written with a thread only by that thread's own switch callback *)
Lemma publish_only_by_callback s t e s' w : reach s -> step s (t, e) = Some s' ->
  th s' = Some w -> th s = Some w \/
  (e = ECbTick /\ t = w /\ exists me, thr_at s t me /\ main me = Susp /\ cb me = CbPublish).
Proof.
  intros R H E. apply reach_inv in R. apply step_inv in H.
  destruct H as [me Ht Ha|me Ht Hm Hc Hl|me Ht Hm Hc Hl|me Ht Hm Hth|me x Ht Hm Hth|me x Ht Hm
                 |me x tx Ht Hm Hx Hxm Hxc Hne|me Ht Hc|me Ht Hm];
    unfold set_thread, set_th in E; cbn [th] in E; auto; try discriminate.
  right. injection E as <-. split; auto. split; auto. exists me. split; auto. split; auto.
  eapply (i_cb R); eauto.
Qed.

(** a suspended thread becomes runnable, and a resumption is counted, only in the push step of a
    signaller that names it; the slot is empty at that moment *)
Lemma no_spurious s t e s' w x x' : reach s -> step s (t, e) = Some s' ->
  thr_at s w x -> thr_at s' w x' ->
  (main x = Susp /\ main x' <> Susp) \/ nres x' <> nres x ->
  e = ETick /\ t <> w /\ (exists me, thr_at s t me /\ main me = SigPush w) /\ th s = None /\
  main x = Susp /\ cb x = CbNone /\ main x' = WaitDone /\ nres x' = S (nres x).
Proof.
  intros R H Hx Hx' D. apply reach_inv in R. apply step_inv in H. unfold thr_at in *.
  destruct H as [me Ht Ha|me Ht Hm Hc Hl|me Ht Hm Hc Hl|me Ht Hm Hth|me y Ht Hm Hth|me y Ht Hm
                 |me y tx Ht Hm Hy Hym Hyc Hne|me Ht Hc|me Ht Hm];
    unfold set_thread, set_th, set_main, set_cb in Hx'; cbn [thr] in Hx'.
  - rewrite Hx in Hx'. injection Hx' as <-. exfalso. destruct D as [[A B]|A]; congruence.
  - exfalso. inv_upd Hx' as N.
    + rewrite Ht in Hx. injection Hx as <-. cbn in D. destruct D as [[A B]|A]; congruence.
    + rewrite Hx in Hx'. injection Hx' as <-. destruct D as [[A B]|A]; congruence.
  - exfalso. inv_upd Hx' as N.
    + rewrite Ht in Hx. injection Hx as <-. cbn in D. destruct D as [[A B]|A]; congruence.
    + rewrite Hx in Hx'. injection Hx' as <-. destruct D as [[A B]|A]; congruence.
  - rewrite Hx in Hx'. injection Hx' as <-. exfalso. destruct D as [[A B]|A]; congruence.
  - exfalso. inv_upd Hx' as N.
    + rewrite Ht in Hx. injection Hx as <-. cbn in D. destruct D as [[A B]|A]; congruence.
    + rewrite Hx in Hx'. injection Hx' as <-. destruct D as [[A B]|A]; congruence.
  - exfalso. inv_upd Hx' as N.
    + rewrite Ht in Hx. injection Hx as <-. cbn in D. destruct D as [[A B]|A]; congruence.
    + rewrite Hx in Hx'. injection Hx' as <-. destruct D as [[A B]|A]; congruence.
  - inv_upd Hx' as N.
    + exfalso. rewrite Ht in Hx. injection Hx as <-. cbn in D. destruct D as [[A B]|A]; congruence.
    + inv_upd Hx' as N'.
      * rewrite Hy in Hx. injection Hx as <-. cbn.
        destruct (i_push R _ _ _ Ht Hm) as (Hth & _).
        split; auto. split; auto. split; [exists me; auto|]. auto 10.
      * exfalso. rewrite Hx in Hx'. injection Hx' as <-. destruct D as [[A B]|A]; congruence.
  - exfalso. inv_upd Hx' as N.
    + rewrite Ht in Hx. injection Hx as <-. cbn in D. destruct D as [[A B]|A]; congruence.
    + rewrite Hx in Hx'. injection Hx' as <-. destruct D as [[A B]|A]; congruence.
  - exfalso. inv_upd Hx' as N.
    + rewrite Ht in Hx. injection Hx as <-. cbn in D. destruct D as [[A B]|A]; [destruct Hm|]; congruence.
    + rewrite Hx in Hx'. injection Hx' as <-. destruct D as [[A B]|A]; congruence.
Qed.

(** every signal call performs exactly one push before it completes *)
Lemma signal_counts s : reach s ->
  (pushes s <= sigs s /\ sigs s <= ann s) /\
  (forall t x, thr_at s t x -> nsig x = npush x + b2n (in_signal x)) /\
  (forall t1 x1 t2 x2, thr_at s t1 x1 -> thr_at s t2 x2 ->
     in_signal x1 = true -> in_signal x2 = true -> t1 = t2) /\
  (sigs s = pushes s + 1 <-> exists t x, thr_at s t x /\ in_signal x = true).
Proof.
  intros R. apply reach_inv in R. destruct R as [Ic Is Isu Ise Ig Igu Ige Icb Ith Icl Ipu Igw Igs].
  split; [lia|]. split; [exact Igs|]. split; [exact Igu|]. split; [exact Ige|].
  intros (t & x & H & Hm). eapply Ig; eauto.
Qed.

(** a signal call reaches its return point, and a push is counted, only through the push step, which
    hands over exactly the thread read from the slot: that thread is suspended with its callback
    complete before the step and runnable after it *)
Lemma signal_done_by_push s t e s' me me' : reach s -> step s (t, e) = Some s' ->
  thr_at s t me -> thr_at s' t me' ->
  (main me' = SigDone /\ main me <> SigDone) \/ npush me' <> npush me ->
  e = ETick /\ main me' = SigDone /\ npush me' = S (npush me) /\ pushes s' = S (pushes s) /\
  exists w x x', main me = SigPush w /\ thr_at s w x /\ main x = Susp /\ cb x = CbNone /\
                 thr_at s' w x' /\ main x' = WaitDone.
Proof.
  intros R H Hx Hx' D. apply step_inv in H. unfold thr_at in *.
  destruct H as [me0 Ht Ha|me0 Ht Hm Hc Hl|me0 Ht Hm Hc Hl|me0 Ht Hm Hth|me0 y Ht Hm Hth|me0 y Ht Hm
                 |me0 y tx Ht Hm Hy Hym Hyc Hne|me0 Ht Hc|me0 Ht Hm];
    unfold set_thread, set_th, set_main, set_cb in Hx'; cbn [thr] in Hx';
    rewrite Ht in Hx; injection Hx as <-.
  - rewrite Ht in Hx'. injection Hx' as <-. exfalso. destruct D as [[A B]|A]; congruence.
  - exfalso. rewrite (upd_nth_eq _ _ _ _ Ht) in Hx'. injection Hx' as <-. cbn in D. destruct D as [[A B]|A]; congruence.
  - exfalso. rewrite (upd_nth_eq _ _ _ _ Ht) in Hx'. injection Hx' as <-. cbn in D. destruct D as [[A B]|A]; congruence.
  - rewrite Ht in Hx'. injection Hx' as <-. exfalso. destruct D as [[A B]|A]; congruence.
  - exfalso. rewrite (upd_nth_eq _ _ _ _ Ht) in Hx'. injection Hx' as <-. cbn in D. destruct D as [[A B]|A]; congruence.
  - exfalso. rewrite (upd_nth_eq _ _ _ _ Ht) in Hx'. injection Hx' as <-. cbn in D. destruct D as [[A B]|A]; congruence.
  - assert (Ht1 : nth_error (upd (thr s) y {| main := WaitDone; cb := CbNone; nwait := nwait tx; nres := S (nres tx);
                                              nsig := nsig tx; npush := npush tx |}) t = Some me0).
    { rewrite upd_nth_ne; auto. }
    rewrite (upd_nth_eq _ _ _ _ Ht1) in Hx'. injection Hx' as <-. cbn.
    split; auto. split; auto. split; auto. split; auto.
    exists y, tx, {| main := WaitDone; cb := CbNone; nwait := nwait tx; nres := S (nres tx);
                     nsig := nsig tx; npush := npush tx |}.
    split; auto. split; auto. split; auto. split; auto. split; [|reflexivity].
    rewrite upd_nth_ne by auto. eapply upd_nth_eq; eauto.
  - exfalso. rewrite (upd_nth_eq _ _ _ _ Ht) in Hx'. injection Hx' as <-. cbn in D. destruct D as [[A B]|A]; congruence.
  - exfalso. rewrite (upd_nth_eq _ _ _ _ Ht) in Hx'. injection Hx' as <-. cbn in D.
    destruct D as [[A B]|A]; [discriminate | congruence].
Qed.

(** a call returns only from its completion point: wait after having been handed over, signal after
    its push; the value is 0 *)
Lemma ret_only_when_done s t v s' : reach s -> step s (t, ERet v) = Some s' ->
  v = 0%Z /\ exists me, thr_at s t me /\
    ((main me = WaitDone /\ nwait me = nres me) \/ (main me = SigDone /\ nsig me = npush me)).
Proof.
  intros R H. apply reach_inv in R. apply step_inv in H. inversion H as [| | | | | | | |me Ht Hm]; subst.
  split; auto. exists me. split; auto. destruct Hm as [Hm|Hm]; [left|right]; split; auto.
  - pose proof (i_gw R _ _ Ht) as E. unfold suspended in E. rewrite Hm in E. cbn in E. lia.
  - pose proof (i_gs R _ _ Ht) as E. unfold in_signal in E. rewrite Hm in E. cbn in E. lia.
Qed.

(** clearing precedes the push *)
Lemma clear_then_push s : reach s ->
  (forall t x y, thr_at s t x -> main x = SigClear y ->
     th s = Some y /\ exists z, thr_at s y z /\ main z = Susp /\ cb z = CbNone) /\
  (forall t x y, thr_at s t x -> main x = SigPush y ->
     th s = None /\ exists z, thr_at s y z /\ main z = Susp /\ cb z = CbNone).
Proof.
  intros R. apply reach_inv in R. split.
  - intros t x y H Hm. pose proof (i_clear R _ _ _ H Hm) as E. split; auto. exact (i_th R _ E).
  - exact (i_push R).
Qed.

(** a publication is erased only by the clearing step of the signaller that read it: neither a
    signaller of an earlier rendezvous (which has nothing left to write after its push) nor another
    waiter can overwrite it *)
Lemma erased_only_by_own_signal s t e s' w : reach s -> step s (t, e) = Some s' ->
  th s = Some w -> th s' <> Some w ->
  e = ETick /\ exists me, thr_at s t me /\ main me = SigClear w /\ th s' = None.
Proof.
  intros R H E D. apply reach_inv in R. apply step_inv in H. unfold thr_at in *.
  destruct H as [me Ht Ha|me Ht Hm Hc Hl|me Ht Hm Hc Hl|me Ht Hm Hth|me y Ht Hm Hth|me y Ht Hm
                 |me y tx Ht Hm Hy Hym Hyc Hne|me Ht Hc|me Ht Hm];
    unfold set_thread, set_th in D; cbn [th] in D; try (exfalso; apply D; exact E).
  - split; auto. exists me. split; auto. pose proof (i_clear R _ _ _ Ht Hm) as E'.
    rewrite E in E'. injection E' as <-. auto.
  - exfalso. destruct (i_th R _ E) as (z & Hz & Hzm & Hzc).
    pose proof (i_cb R _ _ Ht Hc) as Hm.
    assert (w = t) by (eapply (i_susp_u R); eauto). subst w. apply D. reflexivity.
Qed.

(** the early signal: while nothing is published the read step changes nothing (the caller spins);
    as soon as a thread is published the read step commits to exactly that thread *)
Lemma early_signal_spins s t me : thr_at s t me -> main me = SigRead ->
  (th s = None -> step s (t, ETick) = Some s) /\
  (forall x, th s = Some x -> step s (t, ETick) = Some (set_thread s t (set_main me (SigClear x)))).
Proof.
  intros Ht Hm. split.
  - intros E. apply step_kind_sound. eapply SK_spin; eauto.
  - intros x E. apply step_kind_sound. eapply SK_read; eauto.
Qed.

(** nothing blocks the hand-over once it has started: the clear and the push steps of a signaller are
    enabled in every reachable state (the thread it holds is still suspended with its context saved) *)
Lemma handover_enabled s t me : reach s -> thr_at s t me ->
  (forall y, main me = SigClear y -> exists s', step s (t, ETick) = Some s') /\
  (forall y, main me = SigPush y -> exists s', step s (t, ETick) = Some s').
Proof.
  intros R Ht. split; intros y Hm.
  - eexists. apply step_kind_sound. eapply SK_clear; eauto.
  - destruct (clear_then_push s R) as (_ & P). destruct (P _ _ _ Ht Hm) as (_ & z & Hz & Hzm & Hzc).
    eexists. apply step_kind_sound. eapply SK_push; eauto.
    intros ->. unfold thr_at in *. rewrite Ht in Hz. injection Hz as <-. congruence.
Qed.

(** ---- the quantification made explicit ---- *)
Lemma every_schedule_reach n sched : reach (run step sched (init_state n)).
Proof. apply run_reachable. apply reach_init. exists n. reflexivity. Qed.

Lemma reach_is_run s : reach s -> exists n sched, run step sched (init_state n) = s.
Proof.
  intros R. destruct (reachable_run R) as (s0 & sched & (n & ->) & E). exists n, sched. exact E.
Qed.

(** schedule used by a non-vacuity example: thread 0 is handed over, returns, announces and waits again
    and publishes itself while the signal call of thread 1 has not returned yet *)
Definition repeat_sched : list (nat * ev) :=
  [(0, EAnnounce); (0, ECall Wait); (0, ECbTick); (1, ECall Signal); (1, ETick); (1, ETick); (1, ETick);
   (0, ERet 0%Z); (0, EAnnounce); (0, ECall Wait); (0, ECbTick)].
