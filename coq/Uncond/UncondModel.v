(** Abs(uncond): the protocol model behind C08 (uncondition variable).

    Source: src/myth_sync_func.h  myth_uncond_wait_body, myth_uncond_wait_cb,
    myth_uncond_signal_body; documented protocol: include/myth/myth.h (myth_uncond_wait).

      wait(u)   : pop the next runnable thread, save the caller's context and, from the
                  context-switch callback that runs afterwards on the worker the caller just
                  left:   POINT uncond.publish   u->th = cur
      signal(u) : POINT uncond.sig.read    x = u->th;  NULL -> SPIN uncond.sig.spin, read again
                  POINT uncond.sig.clear   u->th = 0
                  POINT uncond.sig.push    push x on the caller's run queue;  return 0

    One model step ([ETick] of the main activity / [ECbTick] of the callback activity) = the
    code between two consecutive MYTH_VERIF_POINTs = exactly one access to u->th (or the push).
    [label] returns the id of the POINT the activity executes next; the correspondence check
    replays traces of the real library (harness/lib_interp.c) through [step], comparing labels,
    hook values and u->th before every step.

    Program class = the documented protocol.  A rendezvous is opened by an *announcement*
    ("atomically_change_data_to_indicate_I_am_sleeping", made by the waiter-to-be or on its
    behalf), after which one thread calls wait and one thread calls signal, in either order
    and arbitrarily interleaved; the next rendezvous on the same variable can be announced as
    soon as the waiter of the previous one has been handed back to the scheduler (the push),
    even if that signal call has not returned yet.  This is encoded as enabledness of
    [EAnnounce] / [ECall] through the ghost counters [ann], [waits], [sigs], [pushes]; the
    ghost fields are never read by the code steps. *)
From Coq Require Import ZArith List Bool String.
Import ListNotations.

Inductive op := Wait | Signal.

Inductive pc :=
| Idle
| Susp                 (* inside wait: the context is saved, the thread is not runnable *)
| WaitDone             (* handed back to the scheduler by a signaller's push; wait returns 0 *)
| SigRead
| SigClear (x : nat)
| SigPush (x : nat)
| SigDone.             (* signal returns 0 *)

Inductive cbpc := CbNone | CbPublish.

(** [nwait]/[nres]: wait calls made by / resumptions of this thread;
    [nsig]/[npush]: signal calls made by / pushes performed by this thread (ghost) *)
Record thread := { main : pc; cb : cbpc; nwait : nat; nres : nat; nsig : nat; npush : nat }.

Record state := {
  th : option nat;             (* u->th : the published waiter *)
  thr : list thread;
  ann : nat;                   (* ghost: rendezvous announced so far *)
  waits : nat;                 (* ghost: wait calls so far *)
  sigs : nat;                  (* ghost: signal calls so far *)
  pushes : nat                 (* ghost: pushes (hand-overs) so far *)
}.

Inductive ev := EAnnounce | ECall (o : op) | ETick | ECbTick | ERet (v : Z).

Definition thread0 : thread :=
  {| main := Idle; cb := CbNone; nwait := 0; nres := 0; nsig := 0; npush := 0 |}.

Definition init_state (nthreads : nat) : state :=
  {| th := None; thr := repeat thread0 nthreads; ann := 0; waits := 0; sigs := 0; pushes := 0 |}.

Fixpoint upd {A} (l : list A) (i : nat) (x : A) : list A :=
  match l, i with
  | [], _ => []
  | _ :: r, O => x :: r
  | y :: r, S j => y :: upd r j x
  end.

Definition get_thread (s : state) (t : nat) : option thread := nth_error (thr s) t.

Definition set_thread (s : state) (t : nat) (x : thread) : state :=
  {| th := th s; thr := upd (thr s) t x; ann := ann s; waits := waits s; sigs := sigs s; pushes := pushes s |}.

Definition set_th (s : state) (v : option nat) : state :=
  {| th := v; thr := thr s; ann := ann s; waits := waits s; sigs := sigs s; pushes := pushes s |}.

Definition set_main (x : thread) (p : pc) : thread :=
  {| main := p; cb := cb x; nwait := nwait x; nres := nres x; nsig := nsig x; npush := npush x |}.

Definition set_cb (x : thread) (c : cbpc) : thread :=
  {| main := main x; cb := c; nwait := nwait x; nres := nres x; nsig := nsig x; npush := npush x |}.

(** the push: [x] must be suspended with its callback complete (its context is saved and it is
    not running anywhere); it becomes runnable and will return from wait *)
Definition wake (s : state) (x : nat) : option state :=
  match get_thread s x with
  | Some tx =>
      match main tx, cb tx with
      | Susp, CbNone =>
          Some (set_thread s x {| main := WaitDone; cb := CbNone; nwait := nwait tx; nres := S (nres tx);
                                  nsig := nsig tx; npush := npush tx |})
      | _, _ => None
      end
  | None => None
  end.

Definition tick (s : state) (t : nat) : option state :=
  match get_thread s t with
  | None => None
  | Some me =>
    match main me with
    | SigRead =>
        match th s with
        | None => Some s                                         (* SPIN uncond.sig.spin; read again *)
        | Some x => Some (set_thread s t (set_main me (SigClear x)))
        end
    | SigClear x => Some (set_thread (set_th s None) t (set_main me (SigPush x)))
    | SigPush x =>
        match wake s x with
        | Some s1 =>
            match get_thread s1 t with
            | Some t1 =>
                Some {| th := th s1;
                        thr := upd (thr s1) t {| main := SigDone; cb := cb t1; nwait := nwait t1; nres := nres t1;
                                                 nsig := nsig t1; npush := S (npush t1) |};
                        ann := ann s1; waits := waits s1; sigs := sigs s1; pushes := S (pushes s1) |}
            | None => None
            end
        | None => None
        end
    | Idle | Susp | WaitDone | SigDone => None
    end
  end.

Definition cbtick (s : state) (t : nat) : option state :=
  match get_thread s t with
  | None => None
  | Some me =>
    match cb me with
    | CbNone => None
    | CbPublish => Some (set_thread (set_th s (Some t)) t (set_cb me CbNone))
    end
  end.

(** the usage contract is part of enabledness: wait and signal are called for an announced
    rendezvous that has not been waited for / signalled yet *)
Definition call (s : state) (t : nat) (o : op) : option state :=
  match get_thread s t with
  | None => None
  | Some me =>
    match main me, cb me with
    | Idle, CbNone =>
      match o with
      | Wait =>
          if Nat.ltb (waits s) (ann s) then
            Some {| th := th s;
                    thr := upd (thr s) t {| main := Susp; cb := CbPublish; nwait := S (nwait me); nres := nres me;
                                            nsig := nsig me; npush := npush me |};
                    ann := ann s; waits := S (waits s); sigs := sigs s; pushes := pushes s |}
          else None
      | Signal =>
          if Nat.ltb (sigs s) (ann s) then
            Some {| th := th s;
                    thr := upd (thr s) t {| main := SigRead; cb := CbNone; nwait := nwait me; nres := nres me;
                                            nsig := S (nsig me); npush := npush me |};
                    ann := ann s; waits := waits s; sigs := S (sigs s); pushes := pushes s |}
          else None
      end
    | _, _ => None
    end
  end.

(** a new rendezvous may be announced (by any existing thread) once the previous one has been
    handed over *)
Definition announce (s : state) (t : nat) : option state :=
  match get_thread s t with
  | None => None
  | Some _ =>
      if Nat.eqb (ann s) (pushes s) then
        Some {| th := th s; thr := thr s; ann := S (ann s); waits := waits s; sigs := sigs s; pushes := pushes s |}
      else None
  end.

Definition ret_ok (s : state) (t : nat) (v : Z) : bool :=
  match get_thread s t with
  | Some me => match main me with
               | WaitDone | SigDone => Z.eqb v 0
               | _ => false
               end
  | None => false
  end.

Definition ret (s : state) (t : nat) (v : Z) : option state :=
  if ret_ok s t v then
    match get_thread s t with
    | Some me => Some (set_thread s t (set_main me Idle))
    | None => None
    end
  else None.

Definition step (s : state) (a : nat * ev) : option state :=
  let (t, e) := a in
  match e with
  | EAnnounce => announce s t
  | ECall o => call s t o
  | ETick => tick s t
  | ECbTick => cbtick s t
  | ERet v => ret s t v
  end.

(** the POINT id the activity executes at its next step ("" = none) *)
Definition label (s : state) (t : nat) (in_cb : bool) : string :=
  match get_thread s t with
  | None => ""
  | Some me =>
    if in_cb then
      match cb me with
      | CbNone => ""
      | CbPublish => "uncond.publish"
      end
    else
      match main me with
      | SigRead => "uncond.sig.read"
      | SigClear _ => "uncond.sig.clear"
      | SigPush _ => "uncond.sig.push"
      | Idle | Susp | WaitDone | SigDone => ""
      end
  end%string.

(** the thread the hook reports (publish: the caller; clear / push: the thread handed over) *)
Definition lval (s : state) (t : nat) (in_cb : bool) : option nat :=
  match get_thread s t with
  | None => None
  | Some me =>
    if in_cb then
      match cb me with CbPublish => Some t | CbNone => None end
    else
      match main me with
      | SigClear x | SigPush x => Some x
      | _ => None
      end
  end.

(** ---- derived notions used by the theorems ---- *)
Definition suspended (x : thread) : bool :=
  match main x with Susp => true | _ => false end.

Definition in_signal (x : thread) : bool :=
  match main x with SigRead | SigClear _ | SigPush _ => true | _ => false end.

Definition b2n (b : bool) : nat := if b then 1 else 0.
