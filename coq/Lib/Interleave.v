(** Generic interleaving transition systems.

    A system is a state type, an actor type, a set of initial states and a
    *function* [step : state -> actor -> option state] ([None] = the actor is
    disabled in that state).  All nondeterminism lives in the schedule (a list
    of actors); because [step] is a function the very same term is extracted
    to OCaml and executed against the C implementation by the correspondence
    checks, so the object the theorems speak about and the object compared
    with the code are the same. *)
From Coq Require Import List.
Import ListNotations.

Set Implicit Arguments.

Section Interleave.
  Variable state actor : Type.
  Variable init : state -> Prop.
  Variable step : state -> actor -> option state.

  Inductive reachable : state -> Prop :=
  | reach_init : forall s, init s -> reachable s
  | reach_step : forall s a s', reachable s -> step s a = Some s' -> reachable s'.

  (** One schedule entry: a disabled actor leaves the state unchanged. *)
  Definition exec1 (s : state) (a : actor) : state :=
    match step s a with Some s' => s' | None => s end.

  Definition run (sched : list actor) (s : state) : state :=
    fold_left exec1 sched s.

  Theorem invariant_rule (I : state -> Prop) :
    (forall s, init s -> I s) ->
    (forall s a s', I s -> step s a = Some s' -> I s') ->
    forall s, reachable s -> I s.
  Proof.
    intros Hi Hs s Hr. induction Hr as [s H0 | s a s' Hr IH Hst].
    - apply Hi; exact H0.
    - eapply Hs; eassumption.
  Qed.

  Lemma exec1_reachable s a : reachable s -> reachable (exec1 s a).
  Proof.
    intros Hr. unfold exec1. destruct (step s a) as [s'|] eqn:E.
    - eapply reach_step; eassumption.
    - exact Hr.
  Qed.

  Lemma run_reachable sched : forall s, reachable s -> reachable (run sched s).
  Proof.
    induction sched as [|a sched IH]; intros s Hr; cbn [run fold_left].
    - exact Hr.
    - apply IH. apply exec1_reachable. exact Hr.
  Qed.

  Theorem run_invariant (I : state -> Prop) :
    (forall s, init s -> I s) ->
    (forall s a s', I s -> step s a = Some s' -> I s') ->
    forall sched s, init s -> I (run sched s).
  Proof.
    intros Hi Hs sched s H0. apply (@invariant_rule I Hi Hs).
    apply run_reachable. apply reach_init. exact H0.
  Qed.

  (** Every reachable state is produced by some schedule from an initial state. *)
  Lemma reachable_run s : reachable s -> exists s0 sched, init s0 /\ run sched s0 = s.
  Proof.
    intros Hr. induction Hr as [s H0 | s a s' Hr IH Hst].
    - exists s, []. split; [exact H0 | reflexivity].
    - destruct IH as (s0 & sched & H0 & Hrun).
      exists s0, (sched ++ [a]). split; [exact H0|].
      unfold run. rewrite fold_left_app. fold (run sched s0). rewrite Hrun.
      cbn [fold_left]. unfold exec1. rewrite Hst. reflexivity.
  Qed.
End Interleave.
