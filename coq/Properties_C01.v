(** C01 - every created thread runs exactly once and join delivers its result.
    Statements only; every proof is [exact] of a lemma of Sched/DescProofs.v or Sched/TsoProofs.v.

    [Reach s]: s is reachable in the transition system of coq/Sched/DescModel.v from [init_state n]
    for some n - ANY number of thread positions, ANY program (the calls each thread makes, restricted
    only by the usage contract encoded as enabledness of [ECall]: a reaping operation targets an
    existing thread that nobody else is reaping or has reaped), ANY schedule (every interleaving of
    the POINT-delimited steps of all threads and of their context-switch callbacks). *)
From Coq Require Import ZArith List Bool Arith.
From MT Require Import Lib.Interleave Sched.DescModel Sched.DescInv Sched.DescProofs Sched.TsoModel Sched.TsoProofs.
Import ListNotations.

(** the start function is invoked at most once, exactly once for every thread that has started (in
    particular every finished one), and with the argument supplied at creation - child-first or
    parent-first, on whichever worker *)
Theorem C01_runs_once : forall s t, Reach s ->
  runs (gh (gt s t)) <= 1 /\
  (status (gt s t) = ST_FREE_READY2 -> runs (gh (gt s t)) = 1) /\
  (started_pc (main (gt s t)) = true -> runs (gh (gt s t)) = 1 /\ got (gh (gt s t)) = Some (garg (gh (gt s t)))) /\
  (forall a, got (gh (gt s t)) = Some a -> a = garg (gh (gt s t))).
Proof. exact runs_once. Qed.
Print Assumptions C01_runs_once.

(** the same along every schedule from every initial state *)
Theorem C01_runs_once_sched : forall n sched t,
  runs (gh (gt (run step sched (init_state n)) t)) <= 1.
Proof. exact runs_once_sched. Qed.
Print Assumptions C01_runs_once_sched.

(** a joiner is registered only once its context is saved (by its own callback, under the target's
    lock), stays suspended with status BLOCKED until the target's finish.readjoin, and the finisher
    never makes runnable a thread whose context is not saved *)
Theorem C01_no_resume_before_save : forall s, Reach s ->
  (forall t j, join_thread (gt s t) = Some j -> before_readjoin (gt s t) = true ->
     suspended_on (gt s j) t = true /\ status (gt s j) = ST_BLOCKED) /\
  badwake s = false.
Proof. exact no_resume_before_save. Qed.
Print Assumptions C01_no_resume_before_save.

(** no lost wake-up (safety form): a joiner suspended in join(t) is never forgotten - it is the registered
    waiter of a target that has not yet run finish.readjoin, or its registering callback still holds t's lock *)
Theorem C01_no_lost_wakeup : forall s j t, Reach s -> main (gt s j) = JSusp t ->
  before_readjoin (gt s t) = true /\ j <> t /\
  (cb (gt s j) = CbNone -> join_thread (gt s t) = Some j) /\
  (cb (gt s j) <> CbNone -> cb (gt s j) = CbJoinSet t /\ lockh (gt s t) = Some j).
Proof. exact no_lost_wakeup. Qed.
Print Assumptions C01_no_lost_wakeup.

Theorem C01_readjoin_wakes_suspended : forall s j w, Reach s ->
  main (gt s j) = FReadJoin -> join_thread (gt s j) = Some w ->
  suspended_on (gt s w) j = true /\ wake s w = modify s w (fun y => set_main (set_status y ST_READY) (JSpin j)).
Proof. exact readjoin_wakes_suspended. Qed.
Print Assumptions C01_readjoin_wakes_suspended.

(** every completed join (the step join.reap of join / successful tryjoin / timedjoin, logged with its
    clock [tm]): the target's function returned or called exit at [t_ret], its FREE_READY2 store
    happened at [t_ready2], and t_ret < t_ready2 < tm *)
Theorem C01_join_after_finish : forall s j t v tm, Reach s -> In (j, t, v, tm) (joins s) ->
  0 < t_ret (gh (gt s t)) /\ t_ret (gh (gt s t)) < t_ready2 (gh (gt s t)) /\ t_ready2 (gh (gt s t)) < tm /\
  tm < clock s /\ retv (gh (gt s t)) = Some v /\ status (gt s t) = ST_FREE_READY2.
Proof. exact join_after_finish. Qed.
Print Assumptions C01_join_after_finish.

(** the time stamps mean what they say *)
Theorem C01_stamps_sound : forall s j e s', Reach s -> step s (j, e) = Some s' -> forall k,
  (t_ret (gh (gt s' k)) <> t_ret (gh (gt s k)) ->
     k = j /\ (e = ECall (Return (result (gt s' k))) \/ e = ECall (Exit (result (gt s' k))) \/
               (e = ETick /\ main (gt s k) = KTest /\ acted (gh (gt s' k)) = true /\ result (gt s' k) = CANCELED)) /\
     t_ret (gh (gt s' k)) = clock s /\ retv (gh (gt s' k)) = Some (result (gt s' k))) /\
  (t_ready2 (gh (gt s' k)) <> t_ready2 (gh (gt s k)) ->
     k = j /\ e = ECbTick /\ cb (gt s j) = CbReady2 /\ t_ready2 (gh (gt s' k)) = clock s /\
     status (gt s' k) = ST_FREE_READY2).
Proof. exact stamps_sound. Qed.
Print Assumptions C01_stamps_sound.

(** the reaping step delivers exactly the value the target returned / passed to exit *)
Theorem C01_join_value : forall s j t s', Reach s -> main (gt s j) = JReap t -> step s (j, ETick) = Some s' ->
  exists v, retv (gh (gt s t)) = Some v /\ result (gt s t) = v /\
            main (gt s' j) = Done 0 (Some v) /\ joins s' = (j, t, v, clock s) :: joins s /\
            status (gt s t) = ST_FREE_READY2 /\
            0 < t_ret (gh (gt s t)) /\ t_ret (gh (gt s t)) < t_ready2 (gh (gt s t)) /\ t_ready2 (gh (gt s t)) < clock s.
Proof. exact join_value. Qed.
Print Assumptions C01_join_value.

(** cancellation.  A thread acts on a cancellation (terminates itself at a myth_testcancel) only if a myth_cancel
    naming ITS incarnation stored its request; a pending request likewise; an unused position carries none ... *)
Theorem C01_cancel_only_own_incarnation : forall s t, Reach s ->
  (acted (gh (gt s t)) = true -> creq (gh (gt s t)) = true) /\
  (cancelled (gt s t) = true -> creq (gh (gt s t)) = true) /\
  (main (gt s t) = NoThread ->
     creq (gh (gt s t)) = false /\ acted (gh (gt s t)) = false /\ cancelled (gt s t) = false).
Proof. exact cancel_only_own_incarnation. Qed.
Print Assumptions C01_cancel_only_own_incarnation.

(** ... creation resets the cancellation state of the descriptor it initialises ... *)
Theorem C01_create_resets_cancel : forall s j c a nullid argv s', Reach s ->
  step s (j, ECall (Create c a nullid argv)) = Some s' -> crashed s' = false ->
  cancelled (gt s' c) = false /\ cancel_enabled (gt s' c) = true /\
  creq (gh (gt s' c)) = false /\ acted (gh (gt s' c)) = false /\ main (gt s c) = NoThread.
Proof. exact create_resets_cancel. Qed.
Print Assumptions C01_create_resets_cancel.

(** ... the request mark of an incarnation is written only by the store of a cancel whose target is that incarnation,
    and a thread terminates itself only at its own testcancel with cancellation enabled and a request pending *)
Theorem C01_cancel_steps : forall s j e s', Reach s -> step s (j, e) = Some s' -> forall t,
  (creq (gh (gt s' t)) <> creq (gh (gt s t)) ->
     main (gt s t) <> NoThread /\ e = ETick /\ main (gt s j) = KCancel t) /\
  (acted (gh (gt s' t)) <> acted (gh (gt s t)) ->
     main (gt s t) <> NoThread /\ t = j /\ e = ETick /\ main (gt s t) = KTest /\
     cancelled (gt s t) = true /\ cancel_enabled (gt s t) = true /\ creq (gh (gt s t)) = true /\
     result (gt s' t) = CANCELED /\ retv (gh (gt s' t)) = Some CANCELED).
Proof. exact cancel_steps. Qed.
Print Assumptions C01_cancel_steps.

(** a join on a thread that acted on a cancellation delivers CANCELED (and the cancel named it); by C01_stamps_sound
    the value of a thread that did NOT act was written by its own return / exit: C01_join_value holds unchanged *)
Theorem C01_join_value_cancelled : forall s j t v tm, Reach s -> In (j, t, v, tm) (joins s) ->
  acted (gh (gt s t)) = true -> v = CANCELED /\ creq (gh (gt s t)) = true.
Proof. exact join_value_cancelled. Qed.
Print Assumptions C01_join_value_cancelled.

(** creation through an attribute object prepared with the public functions (attr_init as it is now,
    then any sequence of setters; also the pthread translation): every field creation reads is
    defined and no custom data is requested ... *)
Theorem C01_attr_prepared : forall g a, prepared g a ->
  exists ss ds cf, a_stacksize a = Val ss /\ a_detachstate a = Val ds /\ a_child_first a = Val cf /\
    create_settings (Some a) = Some (mkSettings ss (negb (cf =? 0)%Z) (negb (ds =? 0)%Z)).
Proof. exact prepared_settings. Qed.
Print Assumptions C01_attr_prepared.

Theorem C01_attr_pthread : forall g det addr size, prepared g (pthread_attr_to_myth g det addr size).
Proof. exact prepared_pthread. Qed.
Print Assumptions C01_attr_pthread.

(** ... and creation with such an attribute, with or without the NULL id pointer, never executes
    undefined behaviour and yields the state of default creation, except that the new descriptor
    carries exactly the requested settings (stack size, creation order, detach state) *)
Theorem C01_attr_equiv : forall s j c a nullid argv st s1,
  create_settings (Some a) = Some st ->
  step s (j, ECall (Create c (Some a) nullid argv)) = Some s1 ->
  exists s2, step s (j, ECall (Create c None false argv)) = Some s2 /\
    crashed s1 = false /\ clock s1 = clock s2 /\ joins s1 = joins s2 /\ badwake s1 = badwake s2 /\
    length (thr s1) = length (thr s2) /\
    forall k, gt s1 k = if k =? c then with_settings st j (gt s2 k) else gt s2 k.
Proof. exact create_equiv. Qed.
Print Assumptions C01_attr_equiv.

(** the two defects that were repaired, kept as alternative definitions *)
Theorem C01_attr_prefix_refuted :
  exists g s', create_settings (Some (attr_init_prefix g attr_dirty)) = None /\
    step (init_state 1) (0, ECall (Create 1 (Some (attr_init_prefix g attr_dirty)) false 7%Z)) = Some s' /\
    crashed s' = true.
Proof. exact attr_prefix_refuted. Qed.
Print Assumptions C01_attr_prefix_refuted.

Theorem C01_nullid_prefix_refuted :
  exists s' s'', step_cfg cfg_prefix_nullid (init_state 1) (0, ECall (Create 1 None true 7%Z)) = Some s' /\ crashed s' = true /\
    step (init_state 1) (0, ECall (Create 1 None true 7%Z)) = Some s'' /\ crashed s'' = false.
Proof. exact nullid_prefix_refuted. Qed.
Print Assumptions C01_nullid_prefix_refuted.

(** PARTIAL.  Full statement: every memory write the thread made is visible to the joiner on the real
    machine.  Proved: in the TSO machine of Sched/TsoModel.v (FIFO store buffers), for ANY writer w,
    reader r <> w, flag word f, set D of data words not containing f: a reader that has loaded the
    flag value loads from every data word the writer's last store to it (made before the flag store).
    Instance: f = status, FLAG = FREE_READY2, D = result and the words the finishing code wrote.
    Missing: that x86 implements this machine and that the compiler keeps the program order of the
    stores (trusted); stores made on earlier workers before a migration (ordered by the run-queue
    fences, C02); the SC interleaving proofs above are not redone on the TSO machine. *)
Theorem C01_visibility_partial : forall (w r : nat) (f : addr) (D : addr -> bool) (FLAG : Z),
  r <> w -> D f = false ->
  forall s d v s', reachable (tinit f FLAG) (tstep w r f D FLAG) s -> seen s = true -> D d = true ->
    tstep w r f D FLAG s (ELoad r d v) = Some s' -> v = lastv s d.
Proof. exact tso_mp. Qed.
Print Assumptions C01_visibility_partial.

Theorem C01_visibility_data_frozen : forall (w r : nat) (f : addr) (D : addr -> bool) (FLAG : Z) s e s',
  flagged s = true -> tstep w r f D FLAG s e = Some s' -> lastv s' = lastv s /\ flagged s' = true.
Proof. exact lastv_frozen. Qed.
Print Assumptions C01_visibility_data_frozen.

(* ---- non-vacuity ---- *)

(** a complete run: main creates thread 1 parent-first with a prepared attribute and joins it before
    it has started; 1 starts, returns 42, hands its worker to the blocked joiner; the join delivers 42 *)
Definition ex_attr : option attr := Some (attr_setchildfirst (attr_init (mkGlobals 131072 0 1) attr_dirty) 0).
Definition ex_sched : list (nat * ev) :=
  [(0, ECall (Create 1 ex_attr false 9%Z)); (0, ERet 0%Z); (0, ECall (Join 1)); (0, ETick); (0, ETick); (0, ECbTick);
   (1, ETick); (1, ECall (Return 42%Z)); (1, ETick); (1, ETick); (1, ECbTick); (1, ECbTick); (1, ECbTick);
   (0, ETick); (0, ETick); (0, ERet 0%Z)].
Definition ex_final : state := run step ex_sched (init_state 1).

Example ex_run_complete :
  Reach ex_final /\ joins ex_final = [(0, 1, 42%Z, 15)] /\ runs (gh (gt ex_final 1)) = 1 /\
  got (gh (gt ex_final 1)) = Some 9%Z /\ status (gt ex_final 1) = ST_FREE_READY2 /\
  t_ret (gh (gt ex_final 1)) = 8 /\ t_ready2 (gh (gt ex_final 1)) = 13 /\ main (gt ex_final 0) = Idle /\
  desc_freed (gh (gt ex_final 1)) = 1 /\ stack_freed (gh (gt ex_final 1)) = 1.
Proof. split; [apply run_reach|]. repeat split; vm_compute; reflexivity. Qed.

(** the hypotheses of C01_no_resume_before_save / C01_readjoin_wakes_suspended are met on the way:
    after 9 steps thread 1 is at finish.readjoin with thread 0 registered and suspended *)
Example ex_registered :
  let s := run step (firstn 9 ex_sched) (init_state 1) in
  Reach s /\ main (gt s 1) = FReadJoin /\ join_thread (gt s 1) = Some 0 /\ before_readjoin (gt s 1) = true /\
  suspended_on (gt s 0) 1 = true /\ status (gt s 0) = ST_BLOCKED.
Proof. cbv zeta. split; [apply run_reach|]. repeat split; vm_compute; reflexivity. Qed.

(** ... and of C01_join_value: after 14 steps thread 0 is at join.reap *)
Example ex_at_reap :
  let s := run step (firstn 14 ex_sched) (init_state 1) in
  Reach s /\ main (gt s 0) = JReap 1 /\ exists s', step s (0, ETick) = Some s'.
Proof. cbv zeta. split; [apply run_reach|]. split; [vm_compute; reflexivity|]. eexists. vm_compute. reflexivity. Qed.

Example ex_prepared : prepared (mkGlobals 131072 0 1)
  (attr_setstacksize (attr_setdetachstate (attr_init (mkGlobals 131072 0 1) attr_dirty) 1) 65536).
Proof. apply prep_ss, prep_det, prep_init. Qed.

(** a TSO run in which the reader sees the flag while the writer's stores were buffered: the data
    store reaches memory before the flag store does *)
Definition tso0 : tso := mkTso (fun _ => 0%Z) (fun _ => []) false (fun _ => 0%Z) false.
Definition tso_sched : list tev :=
  [EStore 0 1 55%Z; EStore 0 0 3%Z; EFlush 0; EFlush 0; ELoad 1 0 3%Z; ELoad 1 1 55%Z].
Example ex_tso :
  tinit 0 3%Z tso0 /\
  exists s, fold_left (fun o e => match o with Some x => tstep 0 1 0 (fun a => a =? 1) 3%Z x e | None => None end)
                      (firstn 5 tso_sched) (Some tso0) = Some s /\
            seen s = true /\ lastv s 1 = 55%Z /\
            exists s', tstep 0 1 0 (fun a => a =? 1) 3%Z s (ELoad 1 1 55%Z) = Some s'.
Proof.
  split; [repeat split; discriminate|]. eexists. split; [vm_compute; reflexivity|].
  split; [reflexivity|]. split; [reflexivity|]. eexists. vm_compute. reflexivity.
Qed.

(** cancellation non-vacuity: thread 1 (parent-first) is cancelled before it starts and acts at its first testcancel;
    the join delivers CANCELED; thread 2 is cancelled after it finished: no effect *)
Definition ex_cancel_sched : list (nat * ev) :=
  [(0, ECall (Create 1 ex_attr false 9%Z)); (0, ERet 0%Z); (0, ECall (Cancel 1)); (0, ETick); (0, ERet 0%Z);
   (1, ETick); (1, ECall TestCancel); (1, ETick); (1, ETick); (1, ETick); (1, ECbTick); (1, ECbTick); (1, ECbTick);
   (0, ECall (Join 1)); (0, ETick); (0, ETick); (0, ETick); (0, ETick); (0, ERet 0%Z)].
Example ex_cancel :
  let s := run step ex_cancel_sched (init_state 1) in
  Reach s /\ acted (gh (gt s 1)) = true /\ creq (gh (gt s 1)) = true /\ joins s = [(0, 1, CANCELED, 18)] /\
  main (gt s 0) = Idle.
Proof. cbv zeta. split; [apply run_reach|]. repeat split; vm_compute; reflexivity. Qed.
