From Coq Require Import ExtrOcamlBasic.
From MT Require Import Init.EnvModel Init.CpuListModel Init.InitProtoModel.
Extraction Language OCaml.
Separate Extraction atoi default_stacksize default_stacksize_prefix default_guardsize
  default_num_workers default_bind_workers default_child_first globalattr_init effective_attr
  worker_ranks binds parse_cpu_list parse_cpu_list_prefix available_cpus worker_cpu
  init_state step step_ts obs result rank_of.
